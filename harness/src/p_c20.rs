//! C20 — each record is framed as format output plus one line ending; provided formats are
//! faithful; all outputs of one record carry the same timestamp.
//! Oracle: independent layouts of the provided format functions (virtual clock gives the exact
//! timestamp text), JSON decoded with serde_json, auto-tick clock for the single-timestamp rule.

use crate::ctl;
use crate::family::{NameCfg, NamingK};
use crate::flw::{self, Clean, Crit, FlwCfg, FmtK, WMode};
use crate::rng::Rng;
use crate::util::{CaseCtx, CaseResult, Verdict, LEVELS};
use flexi_logger::writers::{FileLogWriter, LogWriter};
use flexi_logger::{DeferredNow, FormatFunction, LogSpecification, Logger};
use serde_json::json;
use std::sync::{Arc, Mutex};

pub const TS_FMT: &str = "%Y-%m-%d %H:%M:%S%.6f %:z";

#[derive(Clone, Copy, Debug, PartialEq, Eq)]
pub enum F {
    Default,
    Opt,
    Detailed,
    WithThread,
    Json,
    ColoredDefault,
    ColoredOpt,
    ColoredDetailed,
    ColoredWithThread,
}
pub const ALL_F: [F; 9] = [
    F::Default,
    F::Opt,
    F::Detailed,
    F::WithThread,
    F::Json,
    F::ColoredDefault,
    F::ColoredOpt,
    F::ColoredDetailed,
    F::ColoredWithThread,
];
impl F {
    pub fn func(self) -> FormatFunction {
        match self {
            F::Default => flexi_logger::default_format,
            F::Opt => flexi_logger::opt_format,
            F::Detailed => flexi_logger::detailed_format,
            F::WithThread => flexi_logger::with_thread,
            F::Json => flexi_logger::json_format,
            F::ColoredDefault => flexi_logger::colored_default_format,
            F::ColoredOpt => flexi_logger::colored_opt_format,
            F::ColoredDetailed => flexi_logger::colored_detailed_format,
            F::ColoredWithThread => flexi_logger::colored_with_thread,
        }
    }
    pub fn colored(self) -> bool {
        matches!(
            self,
            F::ColoredDefault | F::ColoredOpt | F::ColoredDetailed | F::ColoredWithThread
        )
    }
    pub fn has_ts(self) -> bool {
        !matches!(self, F::Default | F::ColoredDefault)
    }
}

#[derive(Clone, Debug)]
pub enum KvV {
    S(String),
    I(i64),
    B(bool),
}

#[derive(Clone, Debug)]
pub struct RecSpec {
    pub level: log::Level,
    pub target: String,
    pub module: Option<String>,
    pub file: Option<String>,
    pub line: Option<u32>,
    pub kvs: Vec<(String, KvV)>,
    pub msg: String,
}

pub fn gen_msg(rng: &mut Rng, allow_esc: bool) -> String {
    let pool: &[&str] = &[
        "",
        "plain text",
        "two\nlines",
        "trailing newline\n",
        "\n",
        "crlf inside\r\nsecond",
        "quote \" and 'single'",
        "back\\slash \\n literal",
        "tab\there",
        "control \u{1} \u{7f} chars",
        "non-ascii: é € 漢字 😀",
        "braces { } {A,B} }{",
        "json-like {\"a\": [1,2]}",
        "percent %Y %s {}",
        "null\u{0}byte",
        "[2016-01-13 15:25:01.640870 +01:00] INFO [x] fake prefix",
        "unicode line sep \u{2028} para \u{2029} nel \u{85}",
    ];
    let mut s = (*rng.pick(pool)).to_string();
    if rng.chance(1, 4) {
        s.push_str(*rng.pick(pool));
    }
    if allow_esc && rng.chance(1, 10) {
        s.push_str("\u{1b}[31mred\u{1b}[0m");
    }
    if rng.chance(1, 12) {
        s.push_str(&"long ".repeat(400));
    }
    s
}

pub fn gen_rec(rng: &mut Rng, allow_esc: bool, with_kv: bool) -> RecSpec {
    let kvs = if with_kv && rng.chance(1, 3) {
        let mut v = Vec::new();
        let keys = ["a", "b", "user", "k e y", "é"];
        let n = rng.range(1, 3) as usize;
        for i in 0..n {
            let k = keys[(rng.usize(keys.len()) + i) % keys.len()].to_string();
            if v.iter().any(|(kk, _): &(String, KvV)| *kk == k) {
                continue;
            }
            let val = match rng.below(3) {
                0 => KvV::I(rng.range(-5, 1000)),
                1 => KvV::B(rng.chance(1, 2)),
                _ => KvV::S((*rng.pick(&["foo", "with \"quote\"", "back\\slash", "é€", "", "new\nline"])).to_string()),
            };
            v.push((k, val));
        }
        v
    } else {
        Vec::new()
    };
    RecSpec {
        level: *rng.pick(&LEVELS),
        target: "flmon::c20".into(),
        module: if rng.chance(1, 4) {
            None
        } else {
            Some((*rng.pick(&["flmon::c20", "a::b::c", "m\u{e9}"])).to_string())
        },
        file: if rng.chance(1, 4) {
            None
        } else {
            Some((*rng.pick(&["src/main.rs", "src/d\u{e9}j\u{e0} vu.rs", "C:\\x\\y.rs"])).to_string())
        },
        line: if rng.chance(1, 4) { None } else { Some(rng.range(0, 100_000) as u32) },
        kvs,
        msg: gen_msg(rng, allow_esc),
    }
}

pub fn with_record<R>(r: &RecSpec, target: &str, f: impl FnOnce(&log::Record) -> R) -> R {
    let pairs: Vec<(&str, log::kv::Value)> = r
        .kvs
        .iter()
        .map(|(k, v)| {
            (
                k.as_str(),
                match v {
                    KvV::S(s) => log::kv::Value::from(s.as_str()),
                    KvV::I(i) => log::kv::Value::from(*i),
                    KvV::B(b) => log::kv::Value::from(*b),
                },
            )
        })
        .collect();
    let msg = &r.msg;
    f(&log::Record::builder()
        .args(format_args!("{msg}"))
        .level(r.level)
        .target(target)
        .module_path(r.module.as_deref())
        .file(r.file.as_deref())
        .line(r.line)
        .key_values(&pairs)
        .build())
}

fn kv_text(r: &RecSpec) -> String {
    if r.kvs.is_empty() {
        return String::new();
    }
    let parts: Vec<String> = r
        .kvs
        .iter()
        .map(|(k, v)| match v {
            KvV::S(s) => format!("{k}={s:?}"),
            KvV::I(i) => format!("{k}={i}"),
            KvV::B(b) => format!("{k}={b}"),
        })
        .collect();
    format!("{{{}}} ", parts.join(", "))
}

/// the documented layout (colours stripped); `ts` is the timestamp text
pub fn layout(f: F, r: &RecSpec, ts: &str, thread: &str) -> String {
    let lvl = r.level.as_str();
    let module = r.module.as_deref().unwrap_or("<unnamed>");
    let file = r.file.as_deref().unwrap_or("<unnamed>");
    let line = r.line.unwrap_or(0);
    let kv = kv_text(r);
    let msg = &r.msg;
    match f {
        F::Default | F::ColoredDefault => format!("{lvl} [{module}] {kv}{msg}"),
        F::Opt | F::ColoredOpt => format!("[{ts}] {lvl} [{file}:{line}] {kv}{msg}"),
        F::Detailed | F::ColoredDetailed => {
            format!("[{ts}] {lvl} [{module}] {file}:{line}: {kv}{msg}")
        }
        F::WithThread | F::ColoredWithThread => {
            format!("[{ts}] T[{thread}] {lvl} [{file}:{line}] {kv}{msg}")
        }
        F::Json => String::new(),
    }
}

pub fn strip_ansi(s: &[u8]) -> Vec<u8> {
    let mut out = Vec::with_capacity(s.len());
    let mut i = 0;
    while i < s.len() {
        if s[i] == 0x1b && i + 1 < s.len() && s[i + 1] == b'[' {
            let mut j = i + 2;
            while j < s.len() && (s[j].is_ascii_digit() || s[j] == b';') {
                j += 1;
            }
            if j < s.len() && s[j] == b'm' {
                i = j + 1;
                continue;
            }
        }
        out.push(s[i]);
        i += 1;
    }
    out
}

/// checks one JSON line against the record; returns the timestamp text
pub fn check_json(line: &[u8], r: &RecSpec, thread: Option<&str>) -> Result<String, String> {
    if line.contains(&b'\n') || line.contains(&b'\r') {
        return Err("the JSON output is not a single line".into());
    }
    let v: serde_json::Value =
        serde_json::from_slice(line).map_err(|e| format!("not valid JSON: {e}"))?;
    let o = v.as_object().ok_or("not a JSON object")?;
    let want = |k: &str, exp: Option<serde_json::Value>| -> Result<(), String> {
        match (o.get(k), exp) {
            (None, None) => Ok(()),
            (Some(a), Some(b)) if *a == b => Ok(()),
            (a, b) => Err(format!("field {k}: expected {b:?}, found {a:?}")),
        }
    };
    want("level", Some(json!(r.level.as_str())))?;
    want("text", Some(json!(r.msg)))?;
    want("module_path", r.module.as_ref().map(|m| json!(m)))?;
    want("file", r.file.as_ref().map(|m| json!(m)))?;
    want("line", r.line.map(|l| json!(l)))?;
    if let Some(t) = thread {
        want("thread", Some(json!(t)))?;
    }
    if r.kvs.is_empty() {
        want("kv", None)?;
    } else {
        let mut m = serde_json::Map::new();
        for (k, v) in &r.kvs {
            m.insert(
                k.clone(),
                match v {
                    KvV::S(s) => json!(s),
                    KvV::I(i) => json!(i),
                    KvV::B(b) => json!(b),
                },
            );
        }
        want("kv", Some(serde_json::Value::Object(m)))?;
    }
    for k in o.keys() {
        if !["level", "timestamp", "thread", "module_path", "file", "line", "kv", "text"]
            .contains(&k.as_str())
        {
            return Err(format!("unexpected field {k}"));
        }
    }
    o.get("timestamp")
        .and_then(|t| t.as_str())
        .map(str::to_string)
        .ok_or_else(|| "no timestamp field".to_string())
}

/// extracts "[ts]" from the start of a (colour-stripped) line
pub fn leading_ts(plain: &[u8]) -> Option<String> {
    if plain.first() != Some(&b'[') {
        return None;
    }
    let end = plain.iter().position(|b| *b == b']')?;
    Some(String::from_utf8_lossy(&plain[1..end]).to_string())
}

pub fn ts_in_window(ts: &str, lo_ns: i64, hi_ns: i64) -> bool {
    // the text has microsecond resolution
    let lo = ctl::local_from_ns(lo_ns - lo_ns.rem_euclid(1000));
    let hi = ctl::local_from_ns(hi_ns);
    match chrono::DateTime::parse_from_str(ts, TS_FMT) {
        // the instant lies within the call, and the offset shown is the one of the configured
        // clock (local time of that instant, or +00:00 where UTC is forced)
        Ok(t) => {
            t >= lo
                && t <= hi
                && ts.rsplit(' ').next() == ctl::ts_text(lo_ns, "%:z").rsplit(' ').next()
        }
        Err(_) => false,
    }
}

/// a writer that formats with the function the Logger hands it and keeps the bytes per record
pub struct FmtWriter {
    pub fmt: FormatFunction,
    pub out: Arc<Mutex<Vec<Vec<u8>>>>,
}
impl LogWriter for FmtWriter {
    fn write(&self, now: &mut DeferredNow, record: &log::Record) -> std::io::Result<()> {
        let mut b = Vec::new();
        (self.fmt)(&mut b, now, record)?;
        self.out.lock().unwrap().push(b);
        Ok(())
    }
    fn flush(&self) -> std::io::Result<()> {
        Ok(())
    }
    fn format(&mut self, format: FormatFunction) {
        self.fmt = format;
    }
}

struct Recur<'a> {
    emit: &'a dyn Fn(&RecSpec, Option<&[RecSpec]>),
    inner: &'a [RecSpec],
    text: &'a str,
}
impl std::fmt::Display for Recur<'_> {
    fn fmt(&self, f: &mut std::fmt::Formatter<'_>) -> std::fmt::Result {
        for r in self.inner {
            (self.emit)(r, None);
        }
        f.write_str(self.text)
    }
}

/// what one output holds for one record
struct Seen {
    bytes: Vec<u8>,
}

fn split_file(content: &[u8], expected_lens: &[usize], le: &[u8]) -> Option<Vec<Seen>> {
    // framing: the file must be exactly  (record bytes + line ending)*  — split by the expected
    // lengths, the content comparison happens afterwards
    let mut out = Vec::new();
    let mut off = 0usize;
    for l in expected_lens {
        if off + l + le.len() > content.len() {
            return None;
        }
        out.push(Seen {
            bytes: content[off..off + l].to_vec(),
        });
        if &content[off + l..off + l + le.len()] != le {
            return None;
        }
        off += l + le.len();
    }
    if off != content.len() {
        return None;
    }
    Some(out)
}

/// judges one output record; returns its timestamp text (if the format has one)
fn judge_one(
    f: F,
    got: &[u8],
    r: &RecSpec,
    thread: &str,
    frozen_ts: Option<&str>,
) -> Result<Option<String>, String> {
    if f == F::Json {
        let ts = check_json(got, r, Some(thread))?;
        if let Some(want) = frozen_ts {
            if ts != want {
                return Err(format!("timestamp {ts:?}, expected {want:?}"));
            }
        }
        return Ok(Some(ts));
    }
    let plain = if f.colored() { strip_ansi(got) } else { got.to_vec() };
    let ts = if f.has_ts() { leading_ts(&plain) } else { None };
    if f.has_ts() && ts.is_none() {
        return Err("no [timestamp] at the start of the line".into());
    }
    let ts_text = ts.clone().unwrap_or_default();
    if let (Some(want), true) = (frozen_ts, f.has_ts()) {
        if ts_text != want {
            return Err(format!("timestamp {ts_text:?}, expected {want:?}"));
        }
    }
    let want = layout(f, r, &ts_text, thread);
    if let Some(d) = flw::diff_bytes(want.as_bytes(), &plain) {
        return Err(d);
    }
    Ok(ts)
}

/// shards 4..8 and 12..16 run with UTC forced (a process-wide, irrevocable setting); together with
/// the time zone chosen per shard (`shard % 4`) every zone is covered both ways
pub fn forced_utc_shard(shard: u64) -> bool {
    (shard / 4) % 2 == 1
}

pub fn run_case(ctx: &mut CaseCtx) -> CaseResult {
    if ctx.case % 8 == 7 {
        return c20_child_case(ctx);
    }
    let rng = &mut ctx.rng;
    let recursion = rng.chance(1, 5);
    let f_file = *rng.pick(&ALL_F);
    let f_writer = *rng.pick(&ALL_F);
    let f_extra = *rng.pick(&ALL_F);
    let crlf = rng.chance(1, 3);
    let autotick = rng.chance(1, 2);
    let l1 = rng.chance(1, 4);
    // recursion is judged on a single output (every output formats the outer record itself and
    // would emit the inner records again)
    let multi = !l1 && !recursion;
    let any_colored = f_file.colored() || (multi && (f_writer.colored() || f_extra.colored()));
    let wmode = match rng.below(8) {
        0..=2 => WMode::Direct,
        3..=4 => WMode::BufDont(*rng.pick(&[1usize, 100, 8192])),
        5 => WMode::SupportCapture,
        6 if !recursion => WMode::Async {
            pool: *rng.pick(&[1usize, 8]),
            msg: *rng.pick(&[8usize, 200]),
            flush_ms: 0,
        },
        _ => {
            if ctx.case % 9 == 2 {
                WMode::BufFlush(64, 5)
            } else {
                WMode::Direct
            }
        }
    };
    let dir = ctx.dir.join("main");
    let dir_extra = ctx.dir.join("extra");
    let names = NameCfg {
        dir: dir.clone(),
        basename: "c20".into(),
        discr: None,
        start_ts: None,
        suffix: Some("log".into()),
        naming: NamingK::NoRotation,
    };
    let mut names_extra = names.clone();
    names_extra.dir = dir_extra.clone();
    let mk = |n: &NameCfg, wm: WMode| FlwCfg {
        names: n.clone(),
        use_ts: false,
        crit: None::<Crit>,
        clean: Clean::Never,
        clean_bg: false,
        wmode: wm,
        crlf,
        append: false,
        symlink: None,
        use_utc: false,
        max_level: log::LevelFilter::Trace,
        fmt: FmtK::Raw,
        l2: true,
    };
    let cfg = mk(&names, wmode);
    let cfg_extra = mk(&names_extra, WMode::Direct);
    let mut res = CaseResult::new(format!(
        "{}|file={:?}|{}|{}|{}|{}|{}",
        if l1 { "L1" } else { "L2" },
        f_file,
        if multi { format!("writer={f_writer:?}|extra={f_extra:?}") } else { "single-output".into() },
        if crlf { "CRLF" } else { "LF" },
        wmode.label(),
        if autotick { "autotick" } else { "frozen" },
        if recursion { "recursion" } else { "-" },
    ));
    let t0 = flw::base_time_ns(rng);
    flw::install_virtual(t0);
    if autotick {
        ctl::clock_autotick(1000);
    }
    let le: &[u8] = if crlf { b"\r\n" } else { b"\n" };
    let thread = std::thread::current()
        .name()
        .unwrap_or("<unnamed>")
        .to_string();

    // ------------------------------------------------------------------ build
    let writer_out: Arc<Mutex<Vec<Vec<u8>>>> = Arc::new(Mutex::new(Vec::new()));
    let mut l1_writer: Option<FileLogWriter> = None;
    let mut l2: Option<(Box<dyn log::Log>, flexi_logger::LoggerHandle)> = None;
    let build_err = |res: &mut CaseResult, e: String| {
        res.violate("build-failed", "C20/build-failed", e);
        flw::uninstall_virtual();
    };
    if l1 {
        match cfg.flw_builder().format(f_file.func()).try_build() {
            Ok(w) => l1_writer = Some(w),
            Err(e) => {
                build_err(&mut res, format!("{e:?}"));
                return res;
            }
        }
    } else {
        let mut lg = Logger::with(LogSpecification::trace())
            .format_for_files(f_file.func())
            .write_mode(wmode.to_write_mode())
            .error_channel(flw::error_channel());
        if multi {
            let extra = match cfg_extra.flw_builder().format(f_extra.func()).try_build() {
                Ok(w) => w,
                Err(e) => {
                    build_err(&mut res, format!("{e:?}"));
                    return res;
                }
            };
            lg = lg
                .log_to_file_and_writer(
                    cfg.file_spec(),
                    Box::new(FmtWriter {
                        fmt: flw::fmt_raw,
                        out: writer_out.clone(),
                    }),
                )
                .format_for_writer(f_writer.func())
                .add_writer("X", Box::new(extra));
        } else {
            lg = lg.log_to_file(cfg.file_spec());
        }
        if crlf {
            lg = lg.use_windows_line_ending();
        }
        match lg.build() {
            Ok(x) => l2 = Some(x),
            Err(e) => {
                build_err(&mut res, format!("{e:?}"));
                return res;
            }
        }
    }
    let target = if multi { "{X,_Default}" } else { "flmon::c20" };
    // (emit window, clock text at emit) in the order in which the records reach the outputs
    let order: Mutex<Vec<(RecSpec, i64, i64)>> = Mutex::new(Vec::new());
    fn emit_impl(
        r: &RecSpec,
        inner: Option<&[RecSpec]>,
        target: &str,
        l1_writer: &Option<FileLogWriter>,
        l2: &Option<(Box<dyn log::Log>, flexi_logger::LoggerHandle)>,
        order: &Mutex<Vec<(RecSpec, i64, i64)>>,
    ) {
        let lo = ctl::clock_get().unwrap_or(0);
        let send = |rec: &log::Record| {
            if let Some(w) = l1_writer {
                let _ = w.write(&mut DeferredNow::new(), rec);
            } else if let Some((b, _)) = l2 {
                b.log(rec);
            }
        };
        match inner {
            None => with_record(r, target, |rec| send(rec)),
            Some(inner) => {
                let again = |ri: &RecSpec, _x: Option<&[RecSpec]>| {
                    emit_impl(ri, None, target, l1_writer, l2, order);
                };
                let rc = Recur {
                    emit: &again,
                    inner,
                    text: &r.msg,
                };
                with_record_disp(r, target, &rc, |rec| send(rec));
            }
        }
        let hi = ctl::clock_get().unwrap_or(0);
        order.lock().unwrap().push((r.clone(), lo, hi));
    }

    // ------------------------------------------------------------------ records
    let n = rng.range(1, if ctx.thorough { 40 } else { 20 }) as usize;
    let mut recursive_records = 0u64;
    for _ in 0..n {
        let r = gen_rec(rng, !any_colored, true);
        if recursion && rng.chance(1, 2) {
            let inner: Vec<RecSpec> = (0..rng.range(1, 2))
                .map(|_| gen_rec(rng, !any_colored, false))
                .collect();
            recursive_records += 1;
            emit_impl(&r, Some(&inner), target, &l1_writer, &l2, &order);
        } else {
            emit_impl(&r, None, target, &l1_writer, &l2, &order);
        }
        if rng.chance(1, 4) {
            ctl::clock_advance(*rng.pick(&[1_000, 999_000_000, 86_400_000_000_000]));
        }
    }
    drop(l1_writer.take());
    if let Some((b, h)) = l2.take() {
        h.shutdown();
        drop(h);
        drop(b);
    }
    flw::uninstall_virtual();
    res.absorb_panics("C20", "format workload");

    // ------------------------------------------------------------------ judge
    let order = order.into_inner().unwrap();
    // inner records are pushed before their outer record (emit of the outer returns last)
    let facts = |f: F| format!("{f:?}");
    let judge_output = |res: &mut CaseResult,
                        which: &str,
                        f: F,
                        seen: &[Vec<u8>]|
     -> Option<Vec<Option<String>>> {
        if seen.len() != order.len() {
            res.violate(
                "record-count",
                format!("C20/record-count/{which}"),
                format!("{which}: {} records expected, {} found", order.len(), seen.len()),
            );
            return None;
        }
        let mut tss = Vec::new();
        for (i, ((r, lo, hi), got)) in order.iter().zip(seen.iter()).enumerate() {
            let frozen = if autotick {
                None
            } else {
                Some(ctl::ts_text(*lo, TS_FMT))
            };
            match judge_one(f, got, r, &thread, frozen.as_deref()) {
                Ok(ts) => {
                    if let Some(t) = &ts {
                        if !ts_in_window(t, *lo, *hi) {
                            res.violate(
                                "timestamp-outside-call",
                                format!("C20/timestamp-outside-call/{}", facts(f)),
                                format!("{which} record {i}: timestamp {t} is not within the log call"),
                            );
                            return None;
                        }
                    }
                    tss.push(ts);
                }
                Err(d) => {
                    res.violate(
                        "format-not-faithful",
                        format!("C20/format-not-faithful/{}{}", facts(f), if r.kvs.is_empty() { "" } else { "/kv" }),
                        format!("{which} record {i} ({:?}): {d}", r.msg.chars().take(40).collect::<String>()),
                    );
                    return None;
                }
            }
        }
        Some(tss)
    };
    // file output: framing first
    let read_file = |n: &NameCfg| -> Vec<u8> {
        std::fs::read(n.path("")).unwrap_or_default()
    };
    let mut all_ts: Vec<Vec<Option<String>>> = Vec::new();
    // the file holds record bytes + line ending; the record bytes are found by re-rendering:
    // split greedily using the known line ending is ambiguous for multi-line messages, so the
    // file is compared against a sequential parse driven by the expected record lengths
    // colours: messages contain no ESC when a coloured format is in play, so stripping the
    // ANSI sequences of the whole file loses nothing of the content
    let maybe_strip = |f: F, c: Vec<u8>| if f.colored() { strip_ansi(&c) } else { c };
    let file_content = maybe_strip(f_file, read_file(&names));
    let seen_file = parse_sequential(&file_content, &order, f_file, &thread, le);
    match seen_file {
        Err(d) => res.violate(
            "framing",
            format!("C20/framing/file/{}{}", facts(f_file), if crlf { "/CRLF" } else { "" }),
            d,
        ),
        Ok(seen) => {
            res.count("file_records_checked", seen.len() as u64);
            if let Some(t) = judge_output(&mut res, "file", f_file, &seen) {
                all_ts.push(t);
            }
        }
    }
    if multi {
        let w = writer_out.lock().unwrap().clone();
        res.count("writer_records_checked", w.len() as u64);
        if let Some(t) = judge_output(&mut res, "writer", f_writer, &w) {
            all_ts.push(t);
        }
        let extra_content = maybe_strip(f_extra, read_file(&names_extra));
        match parse_sequential(&extra_content, &order, f_extra, &thread, le) {
            Err(d) => res.violate(
                "framing",
                format!("C20/framing/additional-file/{}", facts(f_extra)),
                d,
            ),
            Ok(seen) => {
                res.count("additional_file_records_checked", seen.len() as u64);
                if let Some(t) = judge_output(&mut res, "additional-file", f_extra, &seen) {
                    all_ts.push(t);
                }
            }
        }
        // all outputs of one record carry the same timestamp
        if all_ts.len() >= 2 {
            for i in 0..order.len() {
                let mut vals: Vec<&String> = all_ts.iter().filter_map(|o| o[i].as_ref()).collect();
                res.count("timestamp_sets_compared", u64::from(vals.len() >= 2));
                vals.dedup();
                if vals.len() > 1 {
                    res.violate(
                        "timestamps-differ-between-outputs",
                        "C20/timestamps-differ-between-outputs",
                        format!("record {i}: {vals:?}"),
                    );
                    break;
                }
            }
        }
    }
    res.count("records", order.len() as u64);
    res.count("recursive_records", recursive_records);
    res.nontrivial = !order.is_empty();
    if ctx.case < 3 || res.verdict != Verdict::Held {
        res.sample = Some(json!({
            "file_format": format!("{f_file:?}"),
            "writer_format": if multi { Some(format!("{f_writer:?}")) } else { None },
            "additional_file_format": if multi { Some(format!("{f_extra:?}")) } else { None },
            "line_ending": if crlf { "CRLF" } else { "LF" },
            "write_mode": format!("{wmode:?}"),
            "clock": if autotick { "autotick 1us per read" } else { "frozen" },
            "records": order.iter().take(6).map(|(r, _, _)| json!({
                "level": r.level.as_str(), "module": r.module, "file": r.file, "line": r.line,
                "kv": format!("{:?}", r.kvs), "msg": r.msg.chars().take(60).collect::<String>()
            })).collect::<Vec<_>>(),
        }));
    }
    res
}

pub fn with_record_disp<R>(
    r: &RecSpec,
    target: &str,
    disp: &dyn std::fmt::Display,
    f: impl FnOnce(&log::Record) -> R,
) -> R {
    let pairs: Vec<(&str, log::kv::Value)> = r
        .kvs
        .iter()
        .map(|(k, v)| {
            (
                k.as_str(),
                match v {
                    KvV::S(s) => log::kv::Value::from(s.as_str()),
                    KvV::I(i) => log::kv::Value::from(*i),
                    KvV::B(b) => log::kv::Value::from(*b),
                },
            )
        })
        .collect();
    f(&log::Record::builder()
        .args(format_args!("{disp}"))
        .level(r.level)
        .target(target)
        .module_path(r.module.as_deref())
        .file(r.file.as_deref())
        .line(r.line)
        .key_values(&pairs)
        .build())
}

/// Parses a file into per-record byte strings: each record is the bytes up to the position
/// where the rendering of the expected record ends, followed by exactly one line ending.
/// The record length is taken from an independent rendering with the observed timestamp width
/// (timestamps have a fixed width), so embedded line endings in messages are unambiguous.
fn parse_sequential(
    content: &[u8],
    order: &[(RecSpec, i64, i64)],
    f: F,
    thread: &str,
    le: &[u8],
) -> Result<Vec<Vec<u8>>, String> {
    let mut out = Vec::new();
    let mut off = 0usize;
    for (i, (r, lo, _)) in order.iter().enumerate() {
        let rest = &content[off.min(content.len())..];
        let len = if f == F::Json {
            // single line by contract
            match find(rest, le) {
                Some(p) => p,
                None => return Err(format!("record {i}: no line ending after the JSON object")),
            }
        } else {
            let ts = ctl::ts_text(*lo, TS_FMT);
            layout(f, r, &ts, thread).len()
        };
        if len > rest.len() || rest.len() < len + le.len() || &rest[len..len + le.len()] != le {
            let shown = String::from_utf8_lossy(&rest[..rest.len().min(len + 12)])
                .replace('\n', "\\n")
                .replace('\r', "\\r");
            return Err(format!(
                "record {i}: expected {len} bytes followed by the line ending {:?}; file continues with {shown:?}",
                String::from_utf8_lossy(le)
            ));
        }
        out.push(rest[..len].to_vec());
        off += len + le.len();
    }
    if off != content.len() {
        return Err(format!(
            "{} unexpected bytes after the last record",
            content.len() - off
        ));
    }
    Ok(out)
}

fn find(hay: &[u8], needle: &[u8]) -> Option<usize> {
    hay.windows(needle.len()).position(|w| w == needle)
}

// ------------------------------------------------------------------------------------------
// child-process part: duplicates to stderr/stdout, std primary writers, real recursion through
// the globally installed logger (log macros inside a Display implementation)

use crate::child::{self, ChildArgs};
use flexi_logger::Duplicate;

impl RecSpec {
    pub fn to_json(&self) -> serde_json::Value {
        json!({
            "level": self.level.as_str(), "target": self.target, "module": self.module,
            "file": self.file, "line": self.line, "msg": self.msg,
            "kvs": self.kvs.iter().map(|(k, v)| match v {
                KvV::S(s) => json!([k, "S", s]),
                KvV::I(i) => json!([k, "I", i]),
                KvV::B(b) => json!([k, "B", b]),
            }).collect::<Vec<_>>(),
        })
    }
    pub fn from_json(v: &serde_json::Value) -> Option<RecSpec> {
        Some(RecSpec {
            level: v["level"].as_str()?.parse().ok()?,
            target: v["target"].as_str()?.to_string(),
            module: v["module"].as_str().map(str::to_string),
            file: v["file"].as_str().map(str::to_string),
            line: v["line"].as_u64().map(|l| l as u32),
            msg: v["msg"].as_str()?.to_string(),
            kvs: v["kvs"]
                .as_array()?
                .iter()
                .filter_map(|e| {
                    let k = e[0].as_str()?.to_string();
                    let val = match e[1].as_str()? {
                        "S" => KvV::S(e[2].as_str()?.to_string()),
                        "I" => KvV::I(e[2].as_i64()?),
                        _ => KvV::B(e[2].as_bool()?),
                    };
                    Some((k, val))
                })
                .collect(),
        })
    }
}

#[derive(Debug, Clone)]
pub enum Primary {
    FileWithDups { dup_err: u8, dup_out: u8 },
    FileOnly,
    Stderr(u8),
    Stdout(u8),
}

/// how a format is configured: by naming the function, through `AdaptiveFormat` (the child's
/// stdout/stderr are pipes, so the uncoloured member of the pair must be chosen), or not at all
/// (documented defaults: `default_format` for files, `AdaptiveFormat::Default` for the streams)
#[derive(Clone, Copy, Debug, PartialEq, Eq)]
pub enum How {
    Explicit,
    Adaptive,
    Unset,
}

fn how_tag(h: How) -> &'static str {
    match h {
        How::Explicit => "",
        How::Adaptive => "(adaptive)",
        How::Unset => "(unset)",
    }
}
#[derive(Debug, Clone)]
pub struct ChildScenario {
    pub primary: Primary,
    pub f_file: F,
    pub f_err: F,
    pub f_out: F,
    pub how_file: How,
    pub how_err: How,
    pub how_out: How,
    pub crlf: bool,
    pub recursion: bool,
    pub t0: i64,
    pub n: usize,
}

fn dup_of(i: u8) -> Duplicate {
    match i % 7 {
        0 => Duplicate::None,
        1 => Duplicate::Error,
        2 => Duplicate::Warn,
        3 => Duplicate::Info,
        4 => Duplicate::Debug,
        5 => Duplicate::Trace,
        _ => Duplicate::All,
    }
}
pub fn dup_admits(i: u8, l: log::Level) -> bool {
    match i % 7 {
        0 => false,
        1 => l == log::Level::Error,
        2 => l <= log::Level::Warn,
        3 => l <= log::Level::Info,
        4 => l <= log::Level::Debug,
        _ => true,
    }
}
/// std write modes: 0 Direct, 1 BufferDontFlush(small), 2 BufferDontFlush(default), 3 Async,
/// 4 SupportCapture
fn std_mode(i: u8) -> flexi_logger::WriteMode {
    match i % 5 {
        0 => flexi_logger::WriteMode::Direct,
        1 => flexi_logger::WriteMode::BufferDontFlushWith(16),
        2 => flexi_logger::WriteMode::BufferDontFlush,
        3 => flexi_logger::WriteMode::AsyncWith {
            pool_capa: 2,
            message_capa: 16,
            flush_interval: std::time::Duration::from_secs(0),
        },
        _ => flexi_logger::WriteMode::SupportCapture,
    }
}
fn std_mode_label(i: u8) -> &'static str {
    match i % 5 {
        0 => "Direct",
        1 | 2 => "Buffered",
        3 => "Async",
        _ => "SupportCapture",
    }
}

pub fn gen_child_scenario(rng: &mut Rng, thorough: bool) -> ChildScenario {
    let recursion = rng.chance(1, 3);
    let primary = match rng.below(if recursion { 3 } else { 4 }) {
        0 => Primary::Stderr(rng.below(5) as u8),
        1 => Primary::Stdout(rng.below(5) as u8),
        2 => Primary::FileOnly,
        _ => Primary::FileWithDups {
            dup_err: rng.below(7) as u8,
            dup_out: rng.below(7) as u8,
        },
    };
    let mut pick_how = |rng: &mut Rng, stream: bool| -> (F, How) {
        match rng.below(6) {
            0 if stream => (
                *rng.pick(&[F::Default, F::Opt, F::Detailed, F::WithThread]),
                How::Adaptive,
            ),
            1 => (F::Default, How::Unset),
            _ => (*rng.pick(&ALL_F), How::Explicit),
        }
    };
    let (f_file, how_file) = pick_how(rng, false);
    let (f_err, how_err) = pick_how(rng, true);
    let (f_out, how_out) = pick_how(rng, true);
    ChildScenario {
        primary,
        f_file,
        f_err,
        f_out,
        how_file,
        how_err,
        how_out,
        crlf: rng.chance(1, 3),
        recursion,
        t0: flw::base_time_ns(rng),
        n: rng.range(2, if thorough { 30 } else { 14 }) as usize,
    }
}

struct MacroRecur<'a> {
    inner: &'a [RecSpec],
    text: &'a str,
    order: &'a Mutex<Vec<(RecSpec, i64)>>,
}
impl std::fmt::Display for MacroRecur<'_> {
    fn fmt(&self, f: &mut std::fmt::Formatter<'_>) -> std::fmt::Result {
        for r in self.inner {
            // the real macro: module path / file / line are those of this call site
            let line = line!() + 1;
            log::log!(target: "flmon::c20", r.level, "{}", r.msg);
            let mut seen = r.clone();
            seen.module = Some(module_path!().to_string());
            seen.file = Some(file!().to_string());
            seen.line = Some(line);
            seen.kvs.clear();
            self.order
                .lock()
                .unwrap()
                .push((seen, ctl::clock_get().unwrap_or(0)));
        }
        f.write_str(self.text)
    }
}

pub fn child_main(a: &ChildArgs) -> i32 {
    let mut ctx = child::ctx_of(a);
    let sc = gen_child_scenario(&mut ctx.rng, ctx.thorough);
    let rng = &mut ctx.rng;
    flw::install_virtual(sc.t0);
    let dir = a.dir.join("main");
    let fs = flexi_logger::FileSpec::default()
        .directory(&dir)
        .basename("c20")
        .suppress_timestamp();
    let mut lg = Logger::with(LogSpecification::trace())
        .error_channel(flexi_logger::ErrorChannel::File(a.dir.join("errchan.txt")));
    let adaptive = |f: F| match f {
        F::Opt => flexi_logger::AdaptiveFormat::Opt,
        F::Detailed => flexi_logger::AdaptiveFormat::Detailed,
        F::WithThread => flexi_logger::AdaptiveFormat::WithThread,
        _ => flexi_logger::AdaptiveFormat::Default,
    };
    if sc.how_file == How::Explicit {
        lg = lg.format_for_files(sc.f_file.func());
    }
    lg = match sc.how_err {
        How::Explicit => lg.format_for_stderr(sc.f_err.func()),
        How::Adaptive => lg.adaptive_format_for_stderr(adaptive(sc.f_err)),
        How::Unset => lg,
    };
    lg = match sc.how_out {
        How::Explicit => lg.format_for_stdout(sc.f_out.func()),
        How::Adaptive => lg.adaptive_format_for_stdout(adaptive(sc.f_out)),
        How::Unset => lg,
    };
    lg = match &sc.primary {
        Primary::FileWithDups { dup_err, dup_out } => lg
            .log_to_file(fs)
            .duplicate_to_stderr(dup_of(*dup_err))
            .duplicate_to_stdout(dup_of(*dup_out)),
        Primary::FileOnly => lg.log_to_file(fs),
        Primary::Stderr(m) => lg.log_to_stderr().write_mode(std_mode(*m)),
        Primary::Stdout(m) => lg.log_to_stdout().write_mode(std_mode(*m)),
    };
    if sc.crlf {
        lg = lg.use_windows_line_ending();
    }
    if forced_utc_shard(a.shard) {
        lg = lg.use_utc();
        ctl::set_forced_utc();
    }
    let handle = match lg.start() {
        Ok(h) => h,
        Err(e) => {
            eprintln!("FLMON-CHILD start failed: {e:?}");
            return 3;
        }
    };
    let any_colored = sc.f_file.colored() || sc.f_err.colored() || sc.f_out.colored();
    let order: Mutex<Vec<(RecSpec, i64)>> = Mutex::new(Vec::new());
    for _ in 0..sc.n {
        let r = gen_rec(rng, !any_colored, true);
        if sc.recursion && rng.chance(1, 2) {
            let inner: Vec<RecSpec> = (0..rng.range(1, 2))
                .map(|_| gen_rec(rng, !any_colored, false))
                .collect();
            let rc = MacroRecur {
                inner: &inner,
                text: &r.msg,
                order: &order,
            };
            with_record_disp(&r, "flmon::c20", &rc, |rec| log::logger().log(rec));
        } else {
            with_record(&r, "flmon::c20", |rec| log::logger().log(rec));
        }
        order
            .lock()
            .unwrap()
            .push((r, ctl::clock_get().unwrap_or(0)));
        ctl::clock_advance(1_000_000);
    }
    handle.shutdown();
    let lines: Vec<String> = order
        .lock()
        .unwrap()
        .iter()
        .map(|(r, c)| {
            let mut v = r.to_json();
            v["clock_ns"] = json!(c);
            v.to_string()
        })
        .collect();
    let _ = std::fs::write(a.dir.join("order.jsonl"), lines.join("\n"));
    drop(handle);
    0
}

pub fn c20_child_case(ctx: &mut CaseCtx) -> CaseResult {
    let sc = gen_child_scenario(&mut ctx.rng, ctx.thorough);
    let (plabel, mode_label) = match &sc.primary {
        Primary::FileWithDups { .. } => ("file+duplicates", "-"),
        Primary::FileOnly => ("file", "-"),
        Primary::Stderr(m) => ("stderr", std_mode_label(*m)),
        Primary::Stdout(m) => ("stdout", std_mode_label(*m)),
    };
    let mut res = CaseResult::new(format!(
        "child|{plabel}|{mode_label}|{}|file={:?}{}|err={:?}{}|out={:?}{}",
        if sc.recursion { "recursion" } else { "-" },
        sc.f_file,
        how_tag(sc.how_file),
        sc.f_err,
        how_tag(sc.how_err),
        sc.f_out,
        how_tag(sc.how_out)
    ));
    let (out, hang_confirmed) = match child::spawn_confirm_hang(&child::Spawn {
        ctx,
        role: "c20",
        extra: vec![],
        env: vec![],
        timeout: std::time::Duration::from_secs(8),
        tag: "c20",
        cwd: None,
        kill_after: None,
    }) {
        Ok(o) => o,
        Err(e) => {
            res.inconclusive(format!("cannot spawn child: {e}"));
            return res;
        }
    };
    if out.timed_out && !hang_confirmed {
        res.inconclusive("child exceeded the watchdog once, not on the immediate re-run");
        return res;
    }
    let facts = format!(
        "{plabel}/{mode_label}{}",
        if sc.recursion { "/recursion" } else { "" }
    );
    if out.timed_out {
        res.violate(
            "hang",
            format!("C20/hang/{facts}"),
            format!("the child did not finish within 8 s, twice in a row (normal duration < 0.1 s): {sc:?}"),
        );
        return res;
    }
    if !out.clean_exit() {
        res.violate(
            "child-died",
            format!("C20/child-died/{facts}"),
            format!(
                "{}; stderr tail: {}",
                out.describe(),
                String::from_utf8_lossy(&out.stderr[out.stderr.len().saturating_sub(400)..])
            ),
        );
        return res;
    }
    let order: Vec<(RecSpec, i64)> = std::fs::read_to_string(ctx.dir.join("order.jsonl"))
        .unwrap_or_default()
        .lines()
        .filter_map(|l| {
            let v: serde_json::Value = serde_json::from_str(l).ok()?;
            Some((RecSpec::from_json(&v)?, v["clock_ns"].as_i64()?))
        })
        .collect();
    if order.is_empty() {
        res.inconclusive("the child recorded no emission order");
        return res;
    }
    let le_file: &[u8] = if sc.crlf { b"\r\n" } else { b"\n" };
    let order3: Vec<(RecSpec, i64, i64)> = order.iter().map(|(r, c)| (r.clone(), *c, *c)).collect();
    let mut all_ts: Vec<(String, Vec<Option<String>>)> = Vec::new();
    let mut judge_stream = |res: &mut CaseResult,
                            which: &str,
                            f: F,
                            content: &[u8],
                            subset: &[(RecSpec, i64, i64)],
                            les: &[&[u8]]|
     -> Option<Vec<Option<String>>> {
        let content = if f.colored() { strip_ansi(content) } else { content.to_vec() };
        let mut parsed = None;
        let mut last_err = String::new();
        for le in les {
            match parse_sequential(&content, subset, f, "main", le) {
                Ok(p) => {
                    parsed = Some(p);
                    break;
                }
                Err(e) => last_err = e,
            }
        }
        let Some(seen) = parsed else {
            res.violate(
                "framing",
                format!("C20/framing/{which}/{f:?}/{facts}"),
                format!("{which}: {last_err}"),
            );
            return None;
        };
        let mut tss = Vec::new();
        for (i, ((r, lo, _), got)) in subset.iter().zip(seen.iter()).enumerate() {
            let frozen = ctl::ts_text(*lo, TS_FMT);
            match judge_one(f, got, r, "main", Some(&frozen)) {
                Ok(ts) => tss.push(ts),
                Err(d) => {
                    res.violate(
                        "format-not-faithful",
                        format!("C20/format-not-faithful/{f:?}/{which}"),
                        format!("{which} record {i}: {d}"),
                    );
                    return None;
                }
            }
        }
        res.count(&format!("{which}_records_checked"), seen.len() as u64);
        Some(tss)
    };
    let std_les: [&[u8]; 2] = [b"\n", b"\r\n"];
    match &sc.primary {
        Primary::Stderr(_) => {
            if let Some(t) = judge_stream(&mut res, "stderr", sc.f_err, &out.stderr, &order3, &std_les) {
                all_ts.push(("stderr".into(), t));
            }
        }
        Primary::Stdout(_) => {
            if let Some(t) = judge_stream(&mut res, "stdout", sc.f_out, &out.stdout, &order3, &std_les) {
                all_ts.push(("stdout".into(), t));
            }
        }
        Primary::FileOnly | Primary::FileWithDups { .. } => {
            let content = std::fs::read(ctx.dir.join("main").join("c20.log")).unwrap_or_default();
            let file_ts = judge_stream(&mut res, "file", sc.f_file, &content, &order3, &[le_file]);
            if let Primary::FileWithDups { dup_err, dup_out } = &sc.primary {
                let sub_e: Vec<(RecSpec, i64, i64)> = order3
                    .iter()
                    .filter(|(r, _, _)| dup_admits(*dup_err, r.level))
                    .cloned()
                    .collect();
                let sub_o: Vec<(RecSpec, i64, i64)> = order3
                    .iter()
                    .filter(|(r, _, _)| dup_admits(*dup_out, r.level))
                    .cloned()
                    .collect();
                let te = judge_stream(&mut res, "stderr-duplicate", sc.f_err, &out.stderr, &sub_e, &std_les);
                let to = judge_stream(&mut res, "stdout-duplicate", sc.f_out, &out.stdout, &sub_o, &std_les);
                // same timestamp in file, stderr and stdout for one record
                if let (Some(ft), Some(te), Some(to)) = (&file_ts, &te, &to) {
                    let (mut ie, mut io) = (0usize, 0usize);
                    for (i, (r, _, _)) in order3.iter().enumerate() {
                        let mut vals: Vec<&String> = Vec::new();
                        if let Some(t) = &ft[i] {
                            vals.push(t);
                        }
                        if dup_admits(*dup_err, r.level) {
                            if let Some(t) = &te[ie] {
                                vals.push(t);
                            }
                            ie += 1;
                        }
                        if dup_admits(*dup_out, r.level) {
                            if let Some(t) = &to[io] {
                                vals.push(t);
                            }
                            io += 1;
                        }
                        res.count("timestamp_sets_compared", u64::from(vals.len() >= 2));
                        vals.dedup();
                        if vals.len() > 1 {
                            res.violate(
                                "timestamps-differ-between-outputs",
                                "C20/timestamps-differ-between-outputs/duplicates",
                                format!("record {i}: {vals:?}"),
                            );
                            break;
                        }
                    }
                }
            }
        }
    }
    res.count("child_runs", 1);
    res.count("records", order.len() as u64);
    res.nontrivial = true;
    if ctx.case < 16 || res.verdict != Verdict::Held {
        res.sample = Some(json!({"scenario": format!("{sc:?}"), "records": order.len()}));
    }
    res
}
