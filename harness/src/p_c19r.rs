//! C19, faults while a logger *starts* on a directory that holds the files of an earlier run.
//! In process, hook faults, exhaustive over the set-up: run 0 writes a history without faults and is
//! shut down; the first record of run 1 sets the writer up (listing, moving the earlier current
//! file away, creating the file, cleaning up). The fs points of that first log call are traced,
//! then the whole scenario is repeated once per (point, occurrence) of the call with an injected
//! error there (and once per burst that covers the point's first occurrences).
//!
//! Judged against the same two runs without the fault: (a) no panic; (b) every record of run 0
//! that survives the fault-free restart survives the faulty one ("no previously written record is
//! lost") - a failing cleanup may keep more; (c) the records of run 1 are all there, except those
//! logged while the set-up kept failing (the set-up is retried by every record until it succeeds:
//! the calls from the first record of run 1 up to the first call without an injected fault);
//! (d) no id twice; (e) a record that was given up left at least one line on the error channel or
//! an error result.

use crate::ctl::{self, Action, PlanItem};
use crate::family::{self, NameCfg, NamingK};
use crate::flw::{self, Clean, Crit, Driver, FlwCfg, FmtK, WMode};
use crate::util::{CaseCtx, CaseResult, Verdict};
use serde_json::json;
use std::io::ErrorKind;

const FAULT_POINTS: &[&str] = &[
    "read_dir",
    "rename_current",
    "open",
    "write",
    "cleanup_remove",
    "gz_create",
    "gz_open_src",
    "gz_copy",
    "gz_finish",
    "gz_remove_src",
    "symlink_remove",
    "symlink_create",
];

#[derive(Clone, Debug)]
enum Op {
    Write(usize),
    Trigger,
    Tick,
}

struct RunOut {
    /// (run, seq) of every record found, in file order (oldest file first)
    found: Vec<(u64, u64)>,
    damaged: Option<String>,
    /// per record of run 1: injected faults in its call, error-channel lines, error result
    calls1: Vec<(u64, Vec<(String, u32)>, usize, bool)>,
    /// fs points of the first log call of run 1 (name, occurrence)
    setup_points: Vec<(String, u32)>,
    build_error: Option<String>,
}

fn read_all(names: &NameCfg) -> (Vec<(u64, u64)>, Option<String>) {
    let mut found = Vec::new();
    let mut damaged = None;
    let Ok(obs) = family::observe(names) else { return (found, Some("directory unreadable".into())) };
    let mut i = 0;
    while i < obs.family.len() {
        let f = &obs.family[i];
        let twin = obs
            .family
            .get(i + 1)
            .filter(|g| g.entry.kind == f.entry.kind && g.entry.gz != f.entry.gz);
        let (pick, step) = match twin {
            Some(g) => (if f.entry.gz { g } else { f }, 2),
            None => (f, 1),
        };
        match &pick.content {
            Ok(c) => {
                for line in String::from_utf8_lossy(c).split('\n') {
                    if line.is_empty() {
                        continue;
                    }
                    match flw::parse_msg_id(line) {
                        Some((r, 0, s)) => found.push((r, s)),
                        _ => {
                            damaged.get_or_insert(format!("{}: {:?}", pick.entry.name, &line[..line.len().min(50)]));
                        }
                    }
                }
            }
            Err(e) => {
                // (a partial .gz without a plain twin can only come from a failed compression
                // whose source is still there; without the source it is a loss)
                damaged.get_or_insert(format!("{}: {e}", pick.entry.name));
            }
        }
        i += step;
    }
    (found, damaged)
}

fn run_both(cfg: &FlwCfg, ops0: &[Op], append1: bool, ops1: &[Op], plan: &[PlanItem], t0: i64) -> RunOut {
    let _ = std::fs::remove_dir_all(&cfg.names.dir);
    flw::install_virtual(t0);
    let _ = flw::take_error_channel();
    let mut out = RunOut { found: Vec::new(), damaged: None, calls1: Vec::new(), setup_points: Vec::new(), build_error: None };
    let apply = |driver: &Driver, run: u64, ops: &[Op], out: &mut RunOut| {
        let mut seq = 0u64;
        for op in ops {
            match op {
                Op::Write(len) => {
                    let before = ctl::with_ctl(|c| c.injected.len());
                    let trace_from = ctl::with_ctl(|c| c.trace.len());
                    let m = flw::msg_id(run, 0, seq, *len);
                    let r = driver.write_result(log::Level::Info, &m);
                    let errs = flw::take_error_channel().iter().filter(|l| l.contains("ERRCODE") && !l.contains("Palette")).count();
                    if run == 1 {
                        let inj = ctl::with_ctl(|c| c.injected[before..].to_vec());
                        out.calls1.push((seq, inj, errs, r.is_err()));
                        if seq == 0 {
                            out.setup_points = ctl::with_ctl(|c| {
                                c.trace[trace_from..]
                                    .iter()
                                    .filter(|e| FAULT_POINTS.contains(&e.name.as_str()))
                                    .map(|e| (e.name.clone(), e.occ))
                                    .collect()
                            });
                        }
                    }
                    seq += 1;
                }
                Op::Trigger => {
                    let _ = driver.rotate();
                    let _ = flw::take_error_channel();
                }
                Op::Tick => ctl::clock_advance(1_000_000_000),
            }
        }
    };
    // run 0: no faults
    match Driver::build(cfg) {
        Ok(mut d) => {
            apply(&d, 0, ops0, &mut out);
            d.shutdown();
        }
        Err(e) => {
            out.build_error = Some(e);
            flw::uninstall_virtual();
            return out;
        }
    }
    let _ = flw::take_error_channel();
    ctl::clock_advance(1_000_000_000);
    // run 1: the plan counts occurrences from here
    ctl::with_ctl(|c| {
        c.counts.clear();
        c.injected.clear();
        c.trace.clear();
        c.tracing = true;
        c.plan = plan.to_vec();
    });
    let mut cfg1 = cfg.clone();
    cfg1.append = append1;
    match Driver::build(&cfg1) {
        Ok(mut d) => {
            apply(&d, 1, ops1, &mut out);
            ctl::with_ctl(|c| c.plan.clear());
            d.shutdown();
        }
        Err(e) => out.build_error = Some(e),
    }
    flw::uninstall_virtual();
    let (found, damaged) = read_all(&cfg.names);
    out.found = found;
    out.damaged = damaged;
    out
}

pub fn run_case(ctx: &mut CaseCtx) -> CaseResult {
    let rng = &mut ctx.rng;
    let naming = match rng.below(6) {
        0 | 1 => NamingK::Numbers,
        _ => flw::gen_naming(rng, true),
    };
    let names = NameCfg {
        dir: ctx.dir.join("logs"),
        basename: (*rng.pick(&["app", "x"])).to_string(),
        discr: if rng.chance(1, 4) { Some("D".into()) } else { None },
        start_ts: None,
        suffix: match rng.below(4) {
            0 => None,
            1 => Some("txt".into()),
            _ => Some("log".into()),
        },
        naming,
    };
    let cfg = FlwCfg {
        names,
        use_ts: false,
        crit: Some(Crit::Size(*rng.pick(&[60u64, 150, 1_000_000]))),
        clean: match rng.below(6) {
            0 => Clean::Logs(rng.range(1, 3) as usize),
            1 => Clean::Gz(rng.range(1, 3) as usize),
            2 => Clean::Both(1, 1),
            _ => Clean::Never,
        },
        clean_bg: false,
        wmode: WMode::Direct,
        crlf: false,
        append: rng.chance(1, 2),
        symlink: if rng.chance(1, 5) { Some(ctx.dir.join("current.lnk")) } else { None },
        use_utc: false,
        max_level: log::LevelFilter::Trace,
        fmt: FmtK::Raw,
        l2: rng.chance(1, 3),
    };
    let gen_ops = |rng: &mut crate::rng::Rng, n: usize| {
        let mut v = vec![Op::Write(10)];
        for _ in 0..n {
            v.push(match rng.below(8) {
                0 | 1 => Op::Trigger,
                2 => Op::Tick,
                _ => Op::Write(rng.usize(50)),
            });
        }
        v.push(Op::Write(5));
        v
    };
    let n0 = rng.range(3, 14) as usize;
    let ops0 = gen_ops(rng, n0);
    let n1 = rng.range(2, 8) as usize;
    let ops1 = gen_ops(rng, n1);
    let append1 = rng.chance(1, 2);
    let t0 = flw::base_time_ns(rng);
    let mut res = CaseResult::new(format!(
        "start-under-fault|{}|{}|{}|restart-{}",
        if cfg.l2 { "L2" } else { "L1" },
        cfg.names.naming.label(),
        cfg.clean.label(),
        if append1 { "append" } else { "noappend" }
    ));
    let facts = format!(
        "naming={}/cleanup={}/restart-{}",
        cfg.names.naming.label(),
        cfg.clean.label(),
        if append1 { "append" } else { "noappend" }
    );
    let base = run_both(&cfg, &ops0, append1, &ops1, &[], t0);
    res.absorb_panics("C19", "fault-free start on a directory with files");
    if let Some(e) = &base.build_error {
        res.violate("build-failed", format!("C19/start-under-fault/build-failed/{facts}"), e.clone());
        return res;
    }
    if res.verdict != Verdict::Held {
        return res;
    }
    let n1 = ops1.iter().filter(|o| matches!(o, Op::Write(_))).count() as u64;
    let base0: Vec<u64> = base.found.iter().filter(|f| f.0 == 0).map(|f| f.1).collect();
    // plans: every (point, occurrence) of the set-up call, and bursts from the first occurrence
    let mut plans: Vec<(String, u32, u32)> = Vec::new();
    let mut pts = base.setup_points.clone();
    pts.sort();
    pts.dedup();
    for (n, occ) in &pts {
        plans.push((n.clone(), *occ, *occ));
    }
    for (n, occ) in &pts {
        if *occ == 1 {
            plans.push((n.clone(), 1, 1 + rng.range(1, 3) as u32));
        }
    }
    res.count("setup_points_in_traces", pts.len() as u64);
    for (n, _) in &pts {
        res.add_to_set("setup_point_kinds", n.clone());
    }
    if !ctx.thorough && plans.len() > 16 {
        for i in (1..plans.len()).rev() {
            let j = rng.usize(i + 1);
            plans.swap(i, j);
        }
        plans.truncate(16);
    } else {
        res.count("setups_with_all_points_enumerated", 1);
    }
    let kinds = [
        ErrorKind::PermissionDenied,
        ErrorKind::Other,
        ErrorKind::StorageFull,
        ErrorKind::Interrupted,
    ];
    for (name, from, to) in plans {
        let kind = *rng.pick(&kinds);
        let plan = vec![PlanItem { name: name.clone(), from, to, action: Action::Fail(kind) }];
        let out = run_both(&cfg, &ops0, append1, &ops1, &plan, t0);
        res.count("fault_runs", 1);
        let ctxt = format!("{kind:?} at {name} occurrence {from}..={to} of the start (run 0: {} records in {:?})", base0.len(), cfg.names.naming.label());
        res.absorb_panics("C19", &ctxt);
        if res.verdict != Verdict::Held {
            break;
        }
        let injected: usize = out.calls1.iter().map(|c| c.1.len()).sum();
        if injected == 0 {
            res.count("fault_not_reached", 1);
            continue;
        }
        res.count("faults_injected", injected as u64);
        res.add_to_set("setup_points_failed", name.clone());
        if let Some(d) = &out.damaged {
            // a partial .gz is legal only next to its source
            if !(name.starts_with("gz_")) {
                res.violate("damaged-output", format!("C19/start-under-fault/damaged-output/{name}/{facts}"), format!("{ctxt}: {d}"));
                break;
            }
        }
        // (d) nothing twice
        let mut seen = std::collections::HashSet::new();
        if let Some(dup) = out.found.iter().find(|f| !seen.insert(**f)) {
            res.violate("duplicate", format!("C19/start-under-fault/duplicate/{name}/{facts}"), format!("{ctxt}: record {dup:?} is in the files twice"));
            break;
        }
        // with a cleanup limit whole files go from the old end, and a fault can shift by a file
        // what the limit takes (a record more or less per file, a twin that counts as two): a
        // record that is older than everything present is then not called lost
        let limited = cfg.clean != Clean::Never;
        let oldest_present = out.found.iter().min().copied().unwrap_or((u64::MAX, u64::MAX));
        let by_limit = |run: u64, seq: u64| limited && (run, seq) < oldest_present;
        // (b) run 0
        let here0: Vec<u64> = out.found.iter().filter(|f| f.0 == 0).map(|f| f.1).collect();
        let lost0: Vec<u64> = base0.iter().copied().filter(|s| !here0.contains(s) && !by_limit(0, *s)).collect();
        if !lost0.is_empty() {
            res.violate(
                "earlier-records-lost",
                format!("C19/start-under-fault/earlier-records-lost/{name}/{facts}"),
                format!("{ctxt}: records {lost0:?} of the earlier run are gone; they survive the same restart without the fault (which keeps {base0:?})"),
            );
            break;
        }
        // (c) run 1: given up only while the set-up keeps failing
        let here1: Vec<u64> = out.found.iter().filter(|f| f.0 == 1).map(|f| f.1).collect();
        let base1: Vec<u64> = base.found.iter().filter(|f| f.0 == 1).map(|f| f.1).collect();
        let mut setting_up = true;
        let mut lost1 = Vec::new();
        let mut unreported = Vec::new();
        for (seq, inj, errs, was_err) in &out.calls1 {
            // (what the set-up cannot do without: the listing, moving the earlier current file
            // away, creating the file; a cleanup or a link that fails is no reason to give up)
            let failed_here = inj.iter().any(|f| matches!(f.0.as_str(), "read_dir" | "rename_current" | "open"));
            let may_miss = (setting_up && failed_here) || inj.iter().any(|f| f.0 == "write");
            if setting_up && !failed_here {
                setting_up = false;
            }
            let present = here1.contains(seq);
            // (a cleanup limit may have removed it in both runs alike)
            let absent_in_base = !base1.contains(seq);
            if !present && !may_miss && !absent_in_base && !by_limit(1, *seq) {
                lost1.push(*seq);
            }
            if !present && may_miss && *errs == 0 && !*was_err && !absent_in_base && !by_limit(1, *seq) {
                unreported.push(*seq);
            }
        }
        if !lost1.is_empty() {
            res.violate(
                "record-lost",
                format!("C19/start-under-fault/record-lost/{name}/{facts}"),
                format!("{ctxt}: records {lost1:?} of the new run are missing although neither their write nor a set-up in their call failed (calls: {:?})", out.calls1.iter().map(|c| (c.0, c.1.clone())).collect::<Vec<_>>()),
            );
            break;
        }
        if !unreported.is_empty() {
            res.violate(
                "failure-not-reported",
                format!("C19/start-under-fault/failure-not-reported/{name}/{facts}"),
                format!("{ctxt}: records {unreported:?} were given up without a line on the error channel or an error result"),
            );
            break;
        }
        res.count("fault_runs_judged", 1);
    }
    res.count("records_run0", base0.len() as u64);
    res.count("records_run1", n1);
    res.nontrivial = res.counters.get("fault_runs_judged").and_then(serde_json::Value::as_u64).unwrap_or(0) >= 1 && !base0.is_empty();
    if ctx.case < 30 || res.verdict != Verdict::Held {
        res.sample = Some(json!({
            "config": cfg.to_json(),
            "run0": ops0.iter().map(|o| format!("{o:?}")).collect::<Vec<_>>(),
            "run1": ops1.iter().map(|o| format!("{o:?}")).collect::<Vec<_>>(),
            "restart_append": append1,
            "setup_points": base.setup_points.iter().map(|p| format!("{}#{}", p.0, p.1)).collect::<Vec<_>>(),
        }));
    }
    res
}
