//! splitmix64 PRNG; every case derives its state from (VERIF_SEED, property, shard, case).

#[derive(Clone, Debug)]
pub struct Rng(pub u64);

pub fn mix(mut z: u64) -> u64 {
    z = z.wrapping_add(0x9E37_79B9_7F4A_7C15);
    z = (z ^ (z >> 30)).wrapping_mul(0xBF58_476D_1CE4_E5B9);
    z = (z ^ (z >> 27)).wrapping_mul(0x94D0_49BB_1331_11EB);
    z ^ (z >> 31)
}

pub fn hash_str(s: &str) -> u64 {
    let mut h: u64 = 0xcbf2_9ce4_8422_2325;
    for b in s.bytes() {
        h ^= u64::from(b);
        h = h.wrapping_mul(0x0000_0100_0000_01B3);
    }
    h
}

impl Rng {
    pub fn for_case(seed: u64, prop: &str, shard: u64, case: u64) -> Self {
        let mut s = mix(seed ^ 0xA5A5_5A5A_1234_5678);
        s = mix(s ^ hash_str(prop));
        s = mix(s ^ shard.wrapping_mul(0x1000_0000_01B3));
        s = mix(s ^ case.wrapping_mul(0x9E37_79B9));
        Rng(s)
    }
    pub fn next(&mut self) -> u64 {
        self.0 = self.0.wrapping_add(0x9E37_79B9_7F4A_7C15);
        let mut z = self.0;
        z = (z ^ (z >> 30)).wrapping_mul(0xBF58_476D_1CE4_E5B9);
        z = (z ^ (z >> 27)).wrapping_mul(0x94D0_49BB_1331_11EB);
        z ^ (z >> 31)
    }
    /// uniform in 0..n (n > 0)
    pub fn below(&mut self, n: u64) -> u64 {
        self.next() % n
    }
    pub fn usize(&mut self, n: usize) -> usize {
        (self.next() % (n as u64)) as usize
    }
    /// uniform in lo..=hi
    pub fn range(&mut self, lo: i64, hi: i64) -> i64 {
        lo + (self.next() % ((hi - lo + 1) as u64)) as i64
    }
    pub fn chance(&mut self, num: u64, den: u64) -> bool {
        self.below(den) < num
    }
    pub fn pick<'a, T>(&mut self, xs: &'a [T]) -> &'a T {
        &xs[self.usize(xs.len())]
    }
    pub fn fork(&mut self) -> Rng {
        Rng(mix(self.next()))
    }
}
