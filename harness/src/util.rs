//! Shared plumbing: scratch directories, panic capture, case context / result types.

use crate::rng::Rng;
use serde_json::{json, Map, Value};
use std::path::{Path, PathBuf};
use std::sync::Mutex;

pub fn work_root() -> PathBuf {
    let p = std::env::var("FLMON_WORK").unwrap_or_else(|_| {
        if Path::new("/dev/shm").is_dir() {
            "/dev/shm/flmon".to_string()
        } else {
            "/tmp/flmon".to_string()
        }
    });
    let p = PathBuf::from(p);
    let _ = std::fs::create_dir_all(&p);
    p
}

pub fn fresh_dir(tag: &str) -> PathBuf {
    use std::sync::atomic::{AtomicU64, Ordering};
    static N: AtomicU64 = AtomicU64::new(0);
    let n = N.fetch_add(1, Ordering::SeqCst);
    let p = work_root().join(format!("{}_{}_{}", tag, std::process::id(), n));
    let _ = std::fs::remove_dir_all(&p);
    std::fs::create_dir_all(&p).expect("cannot create scratch dir");
    p
}

pub fn remove_dir(p: &Path) {
    let _ = std::fs::remove_dir_all(p);
}

// ------------------------------------------------------------------------------------------
// panic capture

#[derive(Clone, Debug)]
pub struct PanicRec {
    pub thread: String,
    pub location: String,
    pub file: String,
    pub message: String,
}

static PANICS: Mutex<Vec<PanicRec>> = Mutex::new(Vec::new());

pub fn install_panic_hook() {
    std::panic::set_hook(Box::new(|info| {
        let thread = std::thread::current()
            .name()
            .unwrap_or("<unnamed>")
            .to_string();
        let (location, file) = info
            .location()
            .map(|l| (format!("{}:{}", l.file(), l.line()), l.file().to_string()))
            .unwrap_or_default();
        let message = if let Some(s) = info.payload().downcast_ref::<&str>() {
            (*s).to_string()
        } else if let Some(s) = info.payload().downcast_ref::<String>() {
            s.clone()
        } else {
            "<non-string panic payload>".to_string()
        };
        if let Ok(mut g) = PANICS.lock() {
            g.push(PanicRec {
                thread,
                location,
                file,
                message,
            });
        }
    }));
}

/// children print their panics to stderr in a recognisable, parseable form
pub fn install_panic_hook_printing() {
    std::panic::set_hook(Box::new(|info| {
        let thread = std::thread::current()
            .name()
            .unwrap_or("<unnamed>")
            .to_string();
        let loc = info
            .location()
            .map(|l| format!("{}:{}", l.file(), l.line()))
            .unwrap_or_default();
        let message = if let Some(s) = info.payload().downcast_ref::<&str>() {
            (*s).to_string()
        } else if let Some(s) = info.payload().downcast_ref::<String>() {
            s.clone()
        } else {
            "<non-string panic payload>".to_string()
        };
        eprintln!(
            "FLMON-CHILD-PANIC thread={thread} at={loc} msg={}",
            message.replace('\n', " ")
        );
    }));
}

pub fn take_panics() -> Vec<PanicRec> {
    PANICS
        .lock()
        .map(|mut g| std::mem::take(&mut *g))
        .unwrap_or_default()
}

/// normalises a panic message so that it is stable across seeds (digits, paths, quoted text)
pub fn normalise_msg(m: &str) -> String {
    // quoted data (file names, characters) varies from case to case
    let mut stripped = String::new();
    let mut in_bt = false;
    let mut in_sq = false;
    for ch in m.chars() {
        match ch {
            '`' if !in_sq => {
                in_bt = !in_bt;
                stripped.push('`');
            }
            '\'' if !in_bt => {
                in_sq = !in_sq;
                stripped.push('\'');
            }
            _ if in_bt || in_sq => {}
            _ => stripped.push(ch),
        }
    }
    let m = stripped.as_str();
    let mut out = String::new();
    let mut last_hash = false;
    for ch in m.chars().take(160) {
        if ch.is_ascii_digit() {
            if !last_hash {
                out.push('#');
            }
            last_hash = true;
        } else {
            out.push(ch);
            last_hash = false;
        }
    }
    // scratch paths differ per run
    let root = work_root().to_string_lossy().to_string();
    out.replace(&root, "<work>")
}

pub fn in_repo_file(file: &str) -> bool {
    // (also a scratch copy of the repository, e.g. /tmp/<x>/repo/src/..)
    file.starts_with("/repo/")
        || file.contains("/repo/src/")
        || (file.starts_with("src/") && !file.contains("flmon"))
}

/// short form of a source path inside the repository (`src/...`)
pub fn repo_rel(file: &str) -> String {
    match file.find("/repo/") {
        Some(i) => file[i + 6..].to_string(),
        None => file.to_string(),
    }
}

// ------------------------------------------------------------------------------------------
// case plumbing

#[derive(Clone, Debug)]
pub struct Violation {
    pub kind: String,
    /// stable signature: distinguishes different violations of one property, stable across seeds
    pub sig: String,
    pub detail: String,
}

#[derive(Clone, Debug, PartialEq, Eq)]
pub enum Verdict {
    Held,
    Violated,
    Inconclusive(String),
}

pub struct CaseCtx {
    pub prop: String,
    pub seed: u64,
    pub shard: u64,
    pub case: u64,
    pub rng: Rng,
    pub dir: PathBuf,
    pub thorough: bool,
    pub verbose: bool,
}

#[derive(Debug)]
pub struct CaseResult {
    pub shape: String,
    pub nontrivial: bool,
    pub verdict: Verdict,
    pub counters: Map<String, Value>,
    pub sample: Option<Value>,
    pub violations: Vec<Violation>,
    /// free-form sets reported per case (e.g. interleaving fingerprints), unioned by the
    /// orchestrator per key
    pub sets: Map<String, Value>,
}

impl CaseResult {
    pub fn new(shape: impl Into<String>) -> Self {
        CaseResult {
            shape: shape.into(),
            nontrivial: false,
            verdict: Verdict::Held,
            counters: Map::new(),
            sample: None,
            violations: Vec::new(),
            sets: Map::new(),
        }
    }
    pub fn count(&mut self, key: &str, n: u64) {
        let cur = self.counters.get(key).and_then(Value::as_u64).unwrap_or(0);
        self.counters.insert(key.to_string(), json!(cur + n));
    }
    pub fn add_to_set(&mut self, key: &str, item: impl Into<String>) {
        let e = self
            .sets
            .entry(key.to_string())
            .or_insert_with(|| Value::Array(vec![]));
        if let Value::Array(a) = e {
            let v = Value::String(item.into());
            if !a.contains(&v) && a.len() < 4096 {
                a.push(v);
            }
        }
    }
    pub fn violate(&mut self, kind: &str, sig: impl Into<String>, detail: impl Into<String>) {
        self.verdict = Verdict::Violated;
        self.violations.push(Violation {
            kind: kind.to_string(),
            sig: sig.into(),
            detail: detail.into(),
        });
    }
    pub fn inconclusive(&mut self, why: impl Into<String>) {
        if self.verdict == Verdict::Held {
            self.verdict = Verdict::Inconclusive(why.into());
        }
    }
    /// turns captured panics from repository code into violations
    pub fn absorb_panics(&mut self, prop: &str, context: &str) {
        for p in take_panics() {
            if in_repo_file(&p.file) {
                let sig = format!(
                    "{prop}/panic/{}/{}",
                    repo_rel(&p.file),
                    normalise_msg(&p.message)
                );
                self.violate(
                    "panic",
                    sig,
                    format!(
                        "panic in thread {} at {}: {} ({context})",
                        p.thread, p.location, p.message
                    ),
                );
            } else {
                self.inconclusive(format!(
                    "harness panic at {}: {}",
                    p.location, p.message
                ));
            }
        }
    }
    pub fn to_json(&self, ctx: &CaseCtx) -> Value {
        json!({
            "case": ctx.case,
            "shard": ctx.shard,
            "shape": self.shape,
            "nontrivial": self.nontrivial,
            "verdict": match &self.verdict {
                Verdict::Held => "held".to_string(),
                Verdict::Violated => "violated".to_string(),
                Verdict::Inconclusive(w) => format!("inconclusive: {w}"),
            },
            "counters": self.counters,
            "sets": self.sets,
            "sample": self.sample,
            "violations": self.violations.iter().map(|v| json!({
                "kind": v.kind, "sig": v.sig, "detail": v.detail
            })).collect::<Vec<_>>(),
        })
    }
}

pub fn level_of(i: u64) -> log::Level {
    match i % 5 {
        0 => log::Level::Error,
        1 => log::Level::Warn,
        2 => log::Level::Info,
        3 => log::Level::Debug,
        _ => log::Level::Trace,
    }
}
pub const LEVELS: [log::Level; 5] = [
    log::Level::Error,
    log::Level::Warn,
    log::Level::Info,
    log::Level::Debug,
    log::Level::Trace,
];
pub const FILTERS: [log::LevelFilter; 6] = [
    log::LevelFilter::Off,
    log::LevelFilter::Error,
    log::LevelFilter::Warn,
    log::LevelFilter::Info,
    log::LevelFilter::Debug,
    log::LevelFilter::Trace,
];
