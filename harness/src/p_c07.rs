//! C07 — cleanup keeps exactly the newest files, compresses losslessly, spares the current file.
//! Oracle: survivor bounds + contiguous newest tail of the logged stream + gzip round trip
//! (Appendix C); cleanup in the logging thread, the background thread (with scheduling noise at
//! its hook points; judged after shutdown) or the async writer thread.

use crate::ctl;
use crate::flw::{self, AgeK, Clean, Crit, FlwCfg, FmtK, HOp, Hist, WMode};
use crate::util::{CaseCtx, CaseResult, Verdict, LEVELS};
use serde_json::json;

const S: i64 = 1_000_000_000;

pub fn run_case(ctx: &mut CaseCtx) -> CaseResult {
    // controlled schedules of the background cleanup thread against the logging thread
    // (p_c07s.rs): every 48th case; in the thorough tier shards 8-15 spend half their cases on it
    let sched_heavy = ctx.thorough && ctx.shard >= 8;
    if (sched_heavy && ctx.case % 2 == 1) || (!sched_heavy && ctx.case % 48 == 7) {
        return crate::p_c07s::run_case(ctx);
    }
    let rng = &mut ctx.rng;
    let naming = flw::gen_naming(rng, true);
    let (mut names, _) = flw::gen_name_parts(rng, &ctx.dir, naming, false);
    names.suffix = match rng.below(6) {
        0 => None,
        1 => Some("txt".into()), // sorts after "restart"
        2 => Some("trc".into()),
        3 => Some("a".into()), // sorts before "gz" and "restart"
        _ => Some("log".into()),
    };
    // every 40th case works with big files (rotated at 100-300 kB, records of several kB with
    // pseudo-random text): compression has to cope with more than one internal buffer
    let big = ctx.case % 40 == 17;
    let clean = match rng.below(3) {
        _ if big => *rng.pick(&[Clean::Gz(2), Clean::Gz(5), Clean::Both(1, 3)]),
        0 => Clean::Logs(rng.usize(6)),
        1 => Clean::Gz(rng.usize(6)),
        _ => Clean::Both(rng.usize(5), rng.usize(5)),
    };
    let thread_mode = rng.below(4); // 0,1 = logging thread, 2 = background thread, 3 = async writer
    let wmode = match thread_mode {
        3 => WMode::Async {
            pool: *rng.pick(&[1usize, 4]),
            msg: *rng.pick(&[8usize, 64]),
            flush_ms: 0,
        },
        _ => {
            if rng.chance(1, 3) {
                WMode::BufDont(*rng.pick(&[1usize, 64, 8192]))
            } else {
                WMode::Direct
            }
        }
    };
    let crit = match rng.below(4) {
        _ if big => Crit::Size(*rng.pick(&[100_000u64, 180_000, 300_000])),
        // the async writer thread reads the (virtual) clock when it processes a record, not when
        // the record is logged: only the size criterion gives a schedule-independent partition
        _ if thread_mode == 3 => Crit::Size(*rng.pick(&[0u64, 15, 50, 200])),
        0 => Crit::Age(AgeK::Second),
        1 => Crit::AgeOrSize(AgeK::Minute, *rng.pick(&[20u64, 100])),
        _ => Crit::Size(*rng.pick(&[0u64, 15, 50, 200])),
    };
    let cfg = FlwCfg {
        names,
        use_ts: false,
        crit: Some(crit),
        clean,
        clean_bg: thread_mode == 2,
        wmode,
        crlf: false,
        append: rng.chance(1, 2),
        symlink: None,
        use_utc: false,
        max_level: log::LevelFilter::Trace,
        fmt: FmtK::Raw,
        l2: rng.chance(1, 5),
    };
    let sync_cleanup = thread_mode < 2;
    let tmode = match thread_mode {
        0 | 1 => "logging-thread",
        2 => "background-thread",
        _ => "async-writer-thread",
    };
    let suffix_class = match cfg.names.suffix.as_deref() {
        None => "no-suffix",
        Some(s) if s > "restart" => "suffix>restart",
        Some(s) if s < "gz" => "suffix<gz",
        _ => "suffix=log",
    };
    let shape_base = format!(
        "{}|{}|{}|{}|{}|{}",
        if cfg.l2 { "L2" } else { "L1" },
        cfg.names.naming.label(),
        match clean {
            Clean::Logs(k) => format!("KeepLogs{}", k.min(2)),
            Clean::Gz(m) => format!("KeepGz{}", m.min(2)),
            Clean::Both(k, m) => format!("KeepBoth{}-{}", k.min(2), m.min(2)),
            Clean::Never => "Never".into(),
        },
        suffix_class,
        tmode,
        crit.label(),
    );
    let shape_base = if big { format!("{shape_base}|big-files") } else { shape_base };
    let mut res = CaseResult::new(shape_base.clone());
    let t0 = flw::base_time_ns(rng);
    flw::install_virtual(t0);
    if thread_mode == 2 {
        // widen the race windows between the cleanup thread and further rotations
        let st = rng.next() | 1;
        ctl::with_ctl(|c| {
            // the logging thread lingers between the rename of the current file and the swap of
            // the writer (fs point `open`), so that the cleanup thread can run inside that window
            c.delays.push(("open".into(), "flmon-case".into(), 150));
            c.noise_state = st;
            c.noise_max_us = 300;
            c.noise_points = [
                "cleanup_act",
                "cleanup_list",
                "cleanup_remove",
                "gz_create",
                "gz_copy",
                "gz_finish",
                "gz_remove_src",
            ]
            .iter()
            .map(|s| (*s).to_string())
            .collect();
        });
    }
    let mut hist = match Hist::start(cfg.clone()) {
        Ok(h) => h,
        Err(e) => {
            res.violate("build-failed", "C07/build-failed", e);
            flw::uninstall_virtual();
            return res;
        }
    };
    hist.model.no_trim = true;

    let nops = if big {
        rng.range(80, 200) as usize
    } else {
        rng.range(3, if ctx.thorough { 90 } else { 40 }) as usize
    };
    let mut script: Vec<String> = Vec::new();
    let mut comparisons = 0u64;
    let mut same_second_rot = false;
    let mut last_rot_sec: i64 = i64::MIN;
    let mut ok = true;
    let no_suffix_compression =
        cfg.names.suffix.is_none() && matches!(cfg.clean, Clean::Gz(_) | Clean::Both(_, _));
    let facts_of = |same_second_rot: bool| {
        let _ = no_suffix_compression;
        format!(
            "naming={}/cleanup={}/{}/{}{}",
            cfg.names.naming.label(),
            cfg.clean.label(),
            suffix_class,
            tmode,
            if same_second_rot { "/same-second-files" } else { "" }
        )
    };
    let judge = |hist: &Hist, res: &mut CaseResult, when: &str, same_second_rot: bool| -> bool {
        let obs = match hist.observe() {
            Ok(o) => o,
            Err(e) => {
                res.inconclusive(format!("cannot read directory: {e}"));
                return false;
            }
        };
        res.count("files_checked", obs.family.len() as u64);
        res.count(
            "gz_round_trips",
            obs.family.iter().filter(|f| f.entry.gz).count() as u64,
        );
        let facts = facts_of(same_second_rot);
        if !obs.foreign.is_empty() {
            res.violate(
                "foreign-file-created",
                format!("C07/foreign-file-created/{facts}"),
                format!("{when}: {:?} (family {:?})", obs.foreign, obs.names()),
            );
            return false;
        }
        match flw::survivor_check(&hist.cfg, &hist.model, &obs, true) {
            Ok(()) => true,
            Err((kind, detail)) => {
                res.violate(
                    "survivors",
                    format!("C07/{kind}/{facts}"),
                    format!("{when}: {detail}"),
                );
                false
            }
        }
    };
    for i in 0..nops {
        let op = match rng.below(12) {
            0..=9 if big => HOp::Write(*rng.pick(&LEVELS), rng.range(2_000, 9_000) as usize),
            0..=6 => HOp::Write(*rng.pick(&LEVELS), rng.usize(45)),
            // (an explicit rotation is ordered with the queued records in async mode, too)
            7..=8 => HOp::Trigger,
            9 => HOp::Advance(*rng.pick(&[0, 300_000_000, S, 2 * S, 61 * S])),
            10 => HOp::Advance(S),
            _ => {
                if rng.chance(1, 2) {
                    HOp::Restart {
                        append: rng.chance(1, 2),
                    }
                } else {
                    HOp::Flush
                }
            }
        };
        script.push(format!("{op:?}"));
        let rot_before = hist.model.rotations;
        if let Err(e) = hist.apply(&op) {
            res.violate(
                "op-error",
                format!("C07/op-error/{}", facts_of(same_second_rot)),
                format!("op {i} {op:?}: {e}"),
            );
            ok = false;
            break;
        }
        if hist.model.rotations > rot_before {
            let sec = hist.now() / S;
            if sec == last_rot_sec {
                same_second_rot = true;
            }
            last_rot_sec = sec;
        }
        // judged (which needs a flush) only now and then: otherwise no rotation would ever
        // happen with unflushed bytes in the buffer
        if sync_cleanup && !matches!(op, HOp::Advance(_)) && rng.chance(1, 4) {
            hist.driver.flush();
            comparisons += 1;
            if !judge(&hist, &mut res, &format!("after op {i} {op:?}"), same_second_rot) {
                ok = false;
                break;
            }
        }
    }
    hist.shutdown();
    if ok {
        comparisons += 1;
        judge(&hist, &mut res, "after shutdown", same_second_rot);
    }
    res.absorb_panics("C07", "cleanup history");
    flw::uninstall_virtual();

    res.count("records", hist.records);
    res.count("rotations", hist.model.rotations);
    res.count("restarts", hist.restarts);
    res.count("comparisons", comparisons);
    let (k, m) = cfg.clean.limits().unwrap_or((0, 0));
    let exceeded = hist.model.rotated.len() > k + m;
    if exceeded {
        res.count("cases_where_limit_was_exceeded", 1);
    }
    res.nontrivial = exceeded && comparisons >= 1;
    res.shape = format!(
        "{shape_base}|{}|{}",
        if same_second_rot { "same-sec" } else { "-" },
        if hist.restarts > 0 { "restart" } else { "-" }
    );
    if ctx.case < 2 || res.verdict != Verdict::Held {
        res.sample = Some(json!({
            "config": cfg.to_json(),
            "cleanup_runs_in": tmode,
            "script": script.iter().take(60).collect::<Vec<_>>(),
            "segments_logged": hist.model.contents().len(),
        }));
    }
    res
}
