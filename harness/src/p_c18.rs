//! C18 — reopen_output and reset_flw switch files without losing or reordering records.
//! Oracle: segment-ownership model (which file / family owns which records) + exact partition
//! comparison per family after shutdown.

use crate::family::{self, NamingK};
use crate::flw::{self, Clean, Crit, Driver, FlwCfg, FmtK, Model, WMode};
use crate::util::{CaseCtx, CaseResult, Verdict, LEVELS};
use serde_json::json;
use std::path::PathBuf;

#[derive(Clone, Debug)]
enum Op {
    Write(log::Level, usize),
    Flush,
    Trigger,
    RenameReopen,
    RemoveReopen,
    Reset,
}

fn gen_family(
    rng: &mut crate::rng::Rng,
    base: &std::path::Path,
    idx: usize,
    wmode: WMode,
    l2: bool,
    fmt: FmtK,
    crlf: bool,
) -> FlwCfg {
    let rotation = rng.chance(1, 2);
    let naming = if rotation {
        flw::gen_naming(rng, false)
    } else {
        NamingK::NoRotation
    };
    let dir = if rng.chance(1, 2) {
        base.join(format!("d{idx}"))
    } else {
        base.to_path_buf()
    };
    let names = family::NameCfg {
        dir,
        // names that are not prefixes of each other: cross-family listing is C14's business
        basename: format!("fam{}", (b'A' + idx as u8) as char),
        discr: if rng.chance(1, 3) { Some("D".into()) } else { None },
        start_ts: None,
        suffix: match rng.below(3) {
            0 => None,
            1 => Some("txt".into()),
            _ => Some("log".into()),
        },
        naming,
    };
    FlwCfg {
        names,
        use_ts: false,
        crit: if rotation {
            Some(Crit::Size(*rng.pick(&[0u64, 30, 120, 1000])))
        } else {
            None
        },
        clean: Clean::Never,
        clean_bg: false,
        wmode,
        crlf,
        append: rng.chance(1, 2),
        symlink: None,
        use_utc: false,
        max_level: log::LevelFilter::Trace,
        fmt,
        l2,
    }
}

pub fn run_case(ctx: &mut CaseCtx) -> CaseResult {
    let rng = &mut ctx.rng;
    let wmode = match rng.below(10) {
        0..=3 => WMode::Direct,
        4..=8 => WMode::BufDont(*rng.pick(&[1usize, 30, 200, 8192])),
        _ => {
            if ctx.case % 6 == 2 {
                WMode::BufFlush(*rng.pick(&[64usize, 8192]), 5)
            } else {
                WMode::BufDont(8192)
            }
        }
    };
    let l2 = rng.chance(1, 3);
    let fmt = *rng.pick(&[FmtK::Raw, FmtK::Raw, FmtK::Default]);
    let crlf = rng.chance(1, 4);
    let base = ctx.dir.clone();
    let mut cfg = gen_family(rng, &base, 0, wmode, l2, fmt, crlf);
    let nops = rng.range(4, if ctx.thorough { 100 } else { 45 }) as usize;
    let mut ops = Vec::new();
    for _ in 0..nops {
        ops.push(match rng.below(16) {
            0..=8 => Op::Write(*rng.pick(&LEVELS), rng.usize(60)),
            9..=10 => Op::Flush,
            11 => Op::Trigger,
            12 => Op::RenameReopen,
            13 => Op::RemoveReopen,
            _ => {
                if rng.chance(1, 2) {
                    Op::Reset
                } else {
                    Op::RenameReopen
                }
            }
        });
    }
    let shape_base = format!(
        "{}|{}|{}|{:?}",
        if l2 { "L2" } else { "L1" },
        wmode.label(),
        if crlf { "CRLF" } else { "LF" },
        fmt
    );
    let mut res = CaseResult::new(shape_base.clone());
    let t0 = flw::base_time_ns(rng);
    flw::install_virtual(t0);
    let mut driver = match Driver::build(&cfg) {
        Ok(d) => d,
        Err(e) => {
            res.violate("build-failed", "C18/build-failed", e);
            flw::uninstall_virtual();
            return res;
        }
    };
    let mut model = Model::new(&cfg);
    // frozen earlier families and externally renamed files
    let mut old_families: Vec<(FlwCfg, Model)> = Vec::new();
    let mut renamed: Vec<(PathBuf, Vec<u8>)> = Vec::new();
    let mut seq = 0u64;
    let mut n_reopen = 0u64;
    let mut n_remove = 0u64;
    let mut n_reset = 0u64;
    let mut n_rot_families = 0u64;
    let mut script: Vec<String> = Vec::new();
    let mut fam_idx = 0usize;
    let mut failed = false;
    let current_path = |cfg: &FlwCfg, model: &Model| -> Option<PathBuf> {
        // the path of the file currently written to, from the directory itself
        model.current.as_ref()?;
        let obs = family::observe(&cfg.names).ok()?;
        obs.family.last().map(|f| cfg.names.dir.join(&f.entry.name))
    };
    for (i, op) in ops.iter().enumerate() {
        match op {
            Op::Write(l, len) => {
                let msg = flw::msg_exact(seq, *len);
                seq += 1;
                driver.write(*l, &msg);
                let mut line = cfg.fmt.expected(*l, &msg);
                line.extend_from_slice(cfg.line_ending());
                model.write(&line, cfg.append, t0);
                script.push(format!("Write({len})"));
            }
            Op::Flush => {
                driver.flush();
                script.push("Flush".into());
            }
            Op::Trigger => {
                model.trigger(t0);
                if let Err(e) = driver.rotate() {
                    res.violate("op-error", "C18/trigger-error", format!("op {i}: {e}"));
                    failed = true;
                    break;
                }
                script.push("Trigger".into());
            }
            Op::RenameReopen | Op::RemoveReopen => {
                // only meaningful once the file exists
                if !model.active {
                    continue;
                }
                let Some(p) = current_path(&cfg, &model) else {
                    continue;
                };
                let remove = matches!(op, Op::RemoveReopen);
                if remove {
                    if std::fs::remove_file(&p).is_err() {
                        continue;
                    }
                    n_remove += 1;
                } else {
                    let target = base.join(format!("moved_{}.bak", renamed.len()));
                    if std::fs::rename(&p, &target).is_err() {
                        continue;
                    }
                    let taken = model.current.as_ref().map(|c| c.content.clone()).unwrap_or_default();
                    renamed.push((target, taken));
                    n_reopen += 1;
                }
                model.external_take_current();
                script.push(format!(
                    "{} {} + reopen_output",
                    if remove { "remove" } else { "rename" },
                    p.file_name().unwrap_or_default().to_string_lossy()
                ));
                if let Err(e) = driver.reopen() {
                    res.violate(
                        "op-error",
                        format!("C18/reopen-error/{}", cfg.wmode.label()),
                        format!("op {i}: reopen_output returned {e}"),
                    );
                    failed = true;
                    break;
                }
            }
            Op::Reset => {
                fam_idx += 1;
                if fam_idx > 20 {
                    continue;
                }
                let new_cfg = gen_family(rng, &base, fam_idx, wmode, l2, fmt, crlf);
                script.push(format!(
                    "reset_flw -> {} {} in {}",
                    new_cfg.names.basename,
                    new_cfg.names.naming.label(),
                    new_cfg.names.dir.file_name().unwrap_or_default().to_string_lossy()
                ));
                if let Err(e) = driver.reset(&new_cfg) {
                    res.violate(
                        "op-error",
                        format!("C18/reset-error/{}", cfg.wmode.label()),
                        format!("op {i}: reset_flw returned {e}"),
                    );
                    failed = true;
                    break;
                }
                if cfg.crit.is_some() {
                    n_rot_families += 1;
                }
                let old_model = std::mem::replace(&mut model, Model::new(&new_cfg));
                old_families.push((cfg.clone(), old_model));
                cfg = new_cfg;
                n_reset += 1;
            }
        }
    }
    driver.shutdown();
    flw::uninstall_virtual();
    let facts = format!("{}/{}", wmode.label(), if l2 { "L2" } else { "L1" });
    if !failed {
        // every family: exact partition
        old_families.push((cfg.clone(), model));
        for (fi, (fcfg, fmodel)) in old_families.iter().enumerate() {
            if !fmodel.active && fmodel.current.is_none() && fmodel.rotated.is_empty() {
                // nothing was ever written to this family: no file may exist
                if let Ok(obs) = family::observe(&fcfg.names) {
                    if !obs.family.is_empty() {
                        res.violate(
                            "unexpected-files",
                            format!("C18/unexpected-files/{facts}"),
                            format!("family #{fi} was never written to but has {:?}", obs.names()),
                        );
                    }
                }
                continue;
            }
            let obs = match family::observe(&fcfg.names) {
                Ok(o) => o,
                Err(e) => {
                    res.violate(
                        "family-missing",
                        format!("C18/family-missing/{facts}"),
                        format!("family #{fi} in {}: {e}", fcfg.names.dir.display()),
                    );
                    continue;
                }
            };
            res.count("families_compared", 1);
            res.count("files_compared", obs.family.len() as u64);
            if let Err((kind, detail)) = flw::compare_partition(fcfg, fmodel, &obs, false, false) {
                let what = if fi + 1 == old_families.len() {
                    "current-family"
                } else {
                    "family-before-reset"
                };
                res.violate(
                    "family-contents",
                    format!("C18/{what}-{kind}/{facts}/naming={}", fcfg.names.naming.label()),
                    format!("family #{fi} ({}): {detail}", fcfg.names.basename),
                );
            }
        }
        for (p, exp) in &renamed {
            res.count("renamed_files_compared", 1);
            match std::fs::read(p) {
                Err(e) => res.violate(
                    "renamed-file-missing",
                    format!("C18/renamed-file-missing/{facts}"),
                    format!("{}: {e}", p.display()),
                ),
                Ok(got) => {
                    if let Some(d) = flw::diff_bytes(exp, &got) {
                        res.violate(
                            "renamed-file-content",
                            format!("C18/renamed-file-content/{facts}"),
                            format!(
                                "{} must hold exactly the records logged before the rename: {d}",
                                p.file_name().unwrap_or_default().to_string_lossy()
                            ),
                        );
                    }
                }
            }
        }
    }
    res.absorb_panics("C18", "reopen/reset history");
    res.count("records", seq);
    res.count("rename_reopen", n_reopen);
    res.count("remove_reopen", n_remove);
    res.count("reset_flw", n_reset);
    res.nontrivial = (n_reopen + n_remove + n_reset) >= 1 && seq >= 2;
    res.shape = format!(
        "{shape_base}|{}|{}|{}|{}",
        if n_reopen > 0 { "rename" } else { "-" },
        if n_remove > 0 { "remove" } else { "-" },
        match n_reset {
            0 => "reset0",
            1 => "reset1",
            _ => "reset2+",
        },
        if n_rot_families > 0 || cfg.crit.is_some() { "rot" } else { "norot" }
    );
    if ctx.case < 2 || res.verdict != Verdict::Held {
        res.sample = Some(json!({
            "first_family": cfg.to_json(),
            "script": script.iter().take(70).collect::<Vec<_>>(),
            "script_len": script.len(),
        }));
    }
    res
}
