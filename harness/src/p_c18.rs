//! C18 — reopen_output and reset_flw switch files without losing or reordering records.
//! Oracle: segment-ownership model (which file / family owns which records) + exact partition
//! comparison per family after shutdown.

use crate::family::{self, NamingK};
use crate::flw::{self, Clean, Crit, Driver, FlwCfg, FmtK, Model, WMode};
use crate::util::{CaseCtx, CaseResult, Verdict, LEVELS};
use serde_json::json;
use std::path::PathBuf;

#[derive(Clone, Debug)]
enum Op {
    Write(log::Level, usize),
    Flush,
    Trigger,
    RenameReopen,
    RemoveReopen,
    Reset,
}

fn gen_family(
    rng: &mut crate::rng::Rng,
    base: &std::path::Path,
    idx: usize,
    wmode: WMode,
    l2: bool,
    fmt: FmtK,
    crlf: bool,
) -> FlwCfg {
    let rotation = rng.chance(1, 2);
    let naming = if rotation {
        flw::gen_naming(rng, false)
    } else {
        NamingK::NoRotation
    };
    let dir = if rng.chance(1, 2) {
        base.join(format!("d{idx}"))
    } else {
        base.to_path_buf()
    };
    let names = family::NameCfg {
        dir,
        // names that are not prefixes of each other: cross-family listing is C14's business
        basename: format!("fam{}", (b'A' + idx as u8) as char),
        discr: if rng.chance(1, 3) { Some("D".into()) } else { None },
        start_ts: None,
        suffix: match rng.below(3) {
            0 => None,
            1 => Some("txt".into()),
            _ => Some("log".into()),
        },
        naming,
    };
    FlwCfg {
        names,
        use_ts: false,
        crit: if rotation {
            Some(Crit::Size(*rng.pick(&[0u64, 30, 120, 1000])))
        } else {
            None
        },
        clean: Clean::Never,
        clean_bg: false,
        wmode,
        crlf,
        append: rng.chance(1, 2),
        symlink: None,
        use_utc: false,
        max_level: log::LevelFilter::Trace,
        fmt,
        l2,
    }
}

// ------------------------------------------------------------------------------------------
// reopen_output() of the LoggerHandle covers every file writer of the logger: the primary one
// and file writers registered as additional writers

fn all_writers_reopen_case(ctx: &mut CaseCtx) -> CaseResult {
    use flexi_logger::{FileSpec, LogSpecification, Logger};
    let rng = &mut ctx.rng;
    let modes = [WMode::Direct, WMode::BufDont(30), WMode::BufDont(8192), WMode::SupportCapture];
    let m_primary = *rng.pick(&modes);
    let m_aux = *rng.pick(&modes);
    // the primary output is a file, or stderr/stdout (nothing is ever addressed to them here):
    // reopen_output() must reach the additional file writers whatever the primary output is
    let primary_kind = *rng.pick(&["file", "file", "stderr", "stdout"]);
    let mut res = CaseResult::new(format!(
        "all-writers|{primary_kind}:{}|aux:{}",
        m_primary.label(),
        m_aux.label()
    ));
    let dirs = [ctx.dir.join("p"), ctx.dir.join("a")];
    let aux = match flexi_logger::writers::FileLogWriter::builder(
        FileSpec::default().directory(&dirs[1]).basename("aux").suppress_timestamp().suffix("log"),
    )
    .format(flw::fmt_raw)
    .write_mode(m_aux.to_write_mode())
    .try_build()
    {
        Ok(w) => w,
        Err(e) => {
            res.violate("build-failed", "C18/build-failed/aux", format!("{e:?}"));
            return res;
        }
    };
    let lg = Logger::with(LogSpecification::trace())
        .format(flw::fmt_raw)
        .error_channel(flw::error_channel());
    let lg = match primary_kind {
        "stderr" => lg.log_to_stderr(),
        "stdout" => lg.log_to_stdout(),
        _ => lg
            .log_to_file(FileSpec::default().directory(&dirs[0]).basename("prim").suppress_timestamp().suffix("log"))
            .write_mode(m_primary.to_write_mode()),
    };
    let built = lg.add_writer("aux", Box::new(aux)).build();
    let writers_in_play: usize = if primary_kind == "file" { 2 } else { 1 };
    let (boxed, handle) = match built {
        Ok(x) => x,
        Err(e) => {
            res.violate("build-failed", "C18/build-failed/all-writers", format!("{e:?}"));
            return res;
        }
    };
    let paths = [dirs[0].join("prim.log"), dirs[1].join("aux.log")];
    let names = ["primary", "additional"];
    // per writer: bytes of the segment that is being written, and the closed segments
    let mut open: [Vec<u8>; 2] = [Vec::new(), Vec::new()];
    let mut closed: Vec<(usize, PathBuf, Vec<u8>)> = Vec::new();
    let mut seq = 0u64;
    let rounds = rng.range(1, 4);
    let mut script: Vec<String> = Vec::new();
    let mut reopens = 0u64;
    for round in 0..=rounds {
        for _ in 0..rng.range(1, 12) {
            let w = if writers_in_play == 2 { rng.usize(2) } else { 1 };
            let msg = flw::msg_id(ctx.case, w as u64, seq, rng.usize(40));
            seq += 1;
            let target = if w == 0 { "flmon::c18" } else { "{aux}" };
            flw::with_record(log::Level::Info, target, &msg, |r| boxed.log(r));
            open[w].extend_from_slice(msg.as_bytes());
            open[w].push(b'\n');
        }
        // an unbuffered writer has everything in its file as soon as the log call has returned -
        // also after a re-open
        for w in 0..2 {
            let mode = if w == 0 { m_primary } else { m_aux };
            if (w == 0 && writers_in_play == 1) || !matches!(mode, WMode::Direct | WMode::SupportCapture) {
                continue;
            }
            let got = std::fs::read(&paths[w]).unwrap_or_default();
            res.count("immediate_reads_of_direct_mode_files", 1);
            if let Some(d) = flw::diff_bytes(&open[w], &got) {
                res.violate(
                    "direct-mode-record-not-in-file",
                    format!("C18/direct-mode-file-behind/{}-writer/after-{}-reopen", names[w], if round == 0 { "no" } else { "a" }),
                    format!("the {} file writer writes in {mode:?}: right after the log calls returned its file must hold all records logged since the last reopen_output(): {d}; script {script:?}", names[w]),
                );
            }
        }
        if round == rounds || res.verdict != Verdict::Held {
            break;
        }
        // take away the current file of one or both writers, then one reopen_output() for all
        let which: Vec<usize> = match rng.below(3) {
            _ if writers_in_play == 1 => vec![1],
            0 => vec![0],
            1 => vec![1],
            _ => vec![0, 1],
        };
        let mut took = false;
        for &w in &which {
            if !paths[w].exists() {
                continue;
            }
            if rng.chance(1, 4) {
                // removed: what was written (or still buffered) before is gone with the file
                if std::fs::remove_file(&paths[w]).is_ok() {
                    open[w].clear();
                    script.push(format!("remove {}", names[w]));
                    took = true;
                }
            } else {
                let target = ctx.dir.join(format!("moved_{}_{}.bak", names[w], closed.len()));
                if std::fs::rename(&paths[w], &target).is_ok() {
                    closed.push((w, target, std::mem::take(&mut open[w])));
                    script.push(format!("rename {}", names[w]));
                    took = true;
                }
            }
        }
        if took {
            reopens += 1;
            script.push("reopen_output".into());
            if let Err(e) = handle.reopen_output() {
                res.violate("op-error", "C18/reopen-error/all-writers", format!("reopen_output returned {e:?}"));
                break;
            }
        }
    }
    handle.shutdown();
    let facts = format!("{primary_kind}:{}+aux:{}", m_primary.label(), m_aux.label());
    if res.verdict == Verdict::Held {
        for w in (2 - writers_in_play)..2 {
            let got = std::fs::read(&paths[w]).unwrap_or_default();
            res.count("files_compared", 1);
            if let Some(d) = flw::diff_bytes(&open[w], &got) {
                res.violate(
                    "records-after-reopen",
                    format!("C18/file-at-original-path/{}-writer/{facts}", names[w]),
                    format!(
                        "the {} file writer's file at its original path must hold exactly the records logged since the last reopen_output(): {d}; script {script:?}",
                        names[w]
                    ),
                );
            }
        }
        for (w, p, exp) in &closed {
            res.count("renamed_files_compared", 1);
            let got = std::fs::read(p).unwrap_or_default();
            if let Some(d) = flw::diff_bytes(exp, &got) {
                res.violate(
                    "renamed-file-content",
                    format!("C18/renamed-file-content/{}-writer/{facts}", names[*w]),
                    format!("{}: {d}; script {script:?}", p.file_name().unwrap_or_default().to_string_lossy()),
                );
            }
        }
    }
    drop(handle);
    drop(boxed);
    res.absorb_panics("C18", "reopen_output with an additional file writer");
    res.count("records", seq);
    res.count("reopen_output_calls_with_additional_writer", reopens);
    res.nontrivial = reopens >= 1;
    if ctx.case < 16 || res.verdict != Verdict::Held {
        res.sample = Some(json!({"script": script, "primary_mode": format!("{m_primary:?}"), "additional_writer_mode": format!("{m_aux:?}")}));
    }
    res
}

// ------------------------------------------------------------------------------------------
// reopen_output() (file in place) from one thread while other threads log and rotate: every
// record exactly once, per-thread order kept in the stream oldest file -> current file

fn concurrent_reopen_case(ctx: &mut CaseCtx) -> CaseResult {
    let rng = &mut ctx.rng;
    let naming = flw::gen_naming(rng, false);
    let wmode = *rng.pick(&[WMode::Direct, WMode::BufDont(64), WMode::BufDont(8192)]);
    let nthreads = rng.range(2, 4) as usize;
    let per_thread = rng.range(150, if ctx.thorough { 1200 } else { 400 }) as u64;
    let cfg = FlwCfg {
        names: family::NameCfg {
            dir: ctx.dir.join("logs"),
            basename: "conc".into(),
            discr: None,
            start_ts: None,
            suffix: Some("log".into()),
            naming,
        },
        use_ts: false,
        crit: Some(Crit::Size(*rng.pick(&[100u64, 400, 2000]))),
        clean: Clean::Never,
        clean_bg: false,
        wmode,
        crlf: false,
        append: false,
        symlink: None,
        use_utc: false,
        max_level: log::LevelFilter::Trace,
        fmt: FmtK::Raw,
        l2: rng.chance(1, 2),
    };
    let mut res = CaseResult::new(format!(
        "concurrent-reopen|{}|{}|{}|t{nthreads}",
        if cfg.l2 { "L2" } else { "L1" },
        cfg.names.naming.label(),
        wmode.label()
    ));
    crate::ctl::install(false);
    crate::ctl::clock_unset();
    let driver = match Driver::build(&cfg) {
        Ok(d) => std::sync::Arc::new(d),
        Err(e) => {
            res.violate("build-failed", "C18/build-failed", e);
            crate::ctl::uninstall();
            return res;
        }
    };
    let run = ctx.case;
    let stop = std::sync::Arc::new(std::sync::atomic::AtomicBool::new(false));
    let mut joins = Vec::new();
    for t in 0..nthreads {
        let d = std::sync::Arc::clone(&driver);
        let mut trng = rng.fork();
        joins.push(std::thread::spawn(move || {
            for s in 0..per_thread {
                d.write(log::Level::Info, &flw::msg_id(run, t as u64, s, trng.usize(40)));
            }
        }));
    }
    let reopener = {
        let d = std::sync::Arc::clone(&driver);
        let stop = std::sync::Arc::clone(&stop);
        std::thread::spawn(move || {
            let mut n = 0u64;
            let mut errs = Vec::new();
            while !stop.load(std::sync::atomic::Ordering::Relaxed) {
                if let Err(e) = d.reopen() {
                    errs.push(e);
                }
                n += 1;
                if n % 8 == 0 {
                    std::thread::yield_now();
                }
            }
            (n, errs)
        })
    };
    for j in joins {
        let _ = j.join();
    }
    stop.store(true, std::sync::atomic::Ordering::Relaxed);
    let (reopens, errs) = reopener.join().unwrap_or((0, vec!["reopen thread panicked".into()]));
    match std::sync::Arc::try_unwrap(driver) {
        Ok(mut d) => d.shutdown(),
        Err(_) => res.inconclusive("driver still shared"),
    }
    crate::ctl::uninstall();
    res.absorb_panics("C18", "reopen_output concurrent with logging and rotation");
    res.count("concurrent_reopen_calls", reopens);
    let facts = format!("{}/{}", wmode.label(), cfg.names.naming.label());
    if let Some(e) = errs.first() {
        res.violate(
            "op-error",
            format!("C18/reopen-error/concurrent/{facts}"),
            format!("reopen_output with the file in place returned {e} ({} of {reopens} calls)", errs.len()),
        );
    }
    if res.verdict == Verdict::Held {
        match family::observe(&cfg.names).map(|o| (o.family.len(), o.stream())) {
            Ok((nfiles, Ok(stream))) => {
                res.count("files_compared", nfiles as u64);
                match crate::p_c03::check_stream(&stream, run, &vec![per_thread; nthreads], b"\n") {
                    Ok(rep) => res.count("lines_checked", rep.lines),
                    Err((kind, detail)) => res.violate(
                        "concurrent-reopen",
                        format!("C18/concurrent-reopen/{kind}/{facts}"),
                        format!("{nthreads} threads logging through {nfiles} files while another thread called reopen_output() {reopens} times: {detail}"),
                    ),
                }
            }
            Ok((_, Err(e))) => res.violate("unreadable", format!("C18/unreadable/{facts}"), e),
            Err(e) => res.inconclusive(e.to_string()),
        }
    }
    res.nontrivial = reopens > 0;
    if ctx.case < 40 || res.verdict != Verdict::Held {
        res.sample = Some(json!({"config": cfg.to_json(), "threads": nthreads, "records_per_thread": per_thread, "reopen_calls": reopens}));
    }
    res
}

pub fn run_case(ctx: &mut CaseCtx) -> CaseResult {
    if ctx.case % 16 == 11 {
        return concurrent_reopen_case(ctx);
    }
    if ctx.case % 8 == 5 {
        return all_writers_reopen_case(ctx);
    }
    let rng = &mut ctx.rng;
    let wmode = match rng.below(10) {
        0..=3 => WMode::Direct,
        4..=8 => WMode::BufDont(*rng.pick(&[1usize, 30, 200, 8192])),
        _ => {
            if ctx.case % 6 == 2 {
                WMode::BufFlush(*rng.pick(&[64usize, 8192]), 5)
            } else {
                WMode::BufDont(8192)
            }
        }
    };
    let l2 = rng.chance(1, 3);
    let fmt = *rng.pick(&[FmtK::Raw, FmtK::Raw, FmtK::Default]);
    let crlf = rng.chance(1, 4);
    let base = ctx.dir.clone();
    let mut cfg = gen_family(rng, &base, 0, wmode, l2, fmt, crlf);
    let nops = rng.range(4, if ctx.thorough { 100 } else { 45 }) as usize;
    let mut ops = Vec::new();
    for _ in 0..nops {
        ops.push(match rng.below(16) {
            0..=8 => Op::Write(*rng.pick(&LEVELS), rng.usize(60)),
            9..=10 => Op::Flush,
            11 => Op::Trigger,
            12 => Op::RenameReopen,
            13 => Op::RemoveReopen,
            _ => {
                if rng.chance(1, 2) {
                    Op::Reset
                } else {
                    Op::RenameReopen
                }
            }
        });
    }
    let shape_base = format!(
        "{}|{}|{}|{:?}",
        if l2 { "L2" } else { "L1" },
        wmode.label(),
        if crlf { "CRLF" } else { "LF" },
        fmt
    );
    let mut res = CaseResult::new(shape_base.clone());
    let t0 = flw::base_time_ns(rng);
    flw::install_virtual(t0);
    let mut driver = match Driver::build(&cfg) {
        Ok(d) => d,
        Err(e) => {
            res.violate("build-failed", "C18/build-failed", e);
            flw::uninstall_virtual();
            return res;
        }
    };
    let mut model = Model::new(&cfg);
    // frozen earlier families and externally renamed files
    let mut old_families: Vec<(FlwCfg, Model)> = Vec::new();
    let mut renamed: Vec<(PathBuf, Vec<u8>)> = Vec::new();
    let mut seq = 0u64;
    let mut n_reopen = 0u64;
    let mut n_remove = 0u64;
    let mut n_reset = 0u64;
    let mut n_rot_families = 0u64;
    let mut script: Vec<String> = Vec::new();
    let mut fam_idx = 0usize;
    let mut failed = false;
    let current_path = |cfg: &FlwCfg, model: &Model| -> Option<PathBuf> {
        // the path of the file currently written to, from the directory itself
        model.current.as_ref()?;
        let obs = family::observe(&cfg.names).ok()?;
        obs.family.last().map(|f| cfg.names.dir.join(&f.entry.name))
    };
    for (i, op) in ops.iter().enumerate() {
        match op {
            Op::Write(l, len) => {
                let msg = flw::msg_exact(seq, *len);
                seq += 1;
                driver.write(*l, &msg);
                let mut line = cfg.fmt.expected(*l, &msg);
                line.extend_from_slice(cfg.line_ending());
                model.write(&line, cfg.append, t0);
                script.push(format!("Write({len})"));
            }
            Op::Flush => {
                driver.flush();
                script.push("Flush".into());
            }
            Op::Trigger => {
                model.trigger(t0);
                if let Err(e) = driver.rotate() {
                    res.violate("op-error", "C18/trigger-error", format!("op {i}: {e}"));
                    failed = true;
                    break;
                }
                script.push("Trigger".into());
            }
            Op::RenameReopen | Op::RemoveReopen => {
                // only meaningful once the file exists
                if !model.active {
                    continue;
                }
                let Some(p) = current_path(&cfg, &model) else {
                    continue;
                };
                let remove = matches!(op, Op::RemoveReopen);
                if remove {
                    if std::fs::remove_file(&p).is_err() {
                        continue;
                    }
                    n_remove += 1;
                } else {
                    let target = base.join(format!("moved_{}.bak", renamed.len()));
                    if std::fs::rename(&p, &target).is_err() {
                        continue;
                    }
                    let taken = model.current.as_ref().map(|c| c.content.clone()).unwrap_or_default();
                    renamed.push((target, taken));
                    n_reopen += 1;
                }
                model.external_take_current();
                script.push(format!(
                    "{} {} + reopen_output",
                    if remove { "remove" } else { "rename" },
                    p.file_name().unwrap_or_default().to_string_lossy()
                ));
                if let Err(e) = driver.reopen() {
                    res.violate(
                        "op-error",
                        format!("C18/reopen-error/{}", cfg.wmode.label()),
                        format!("op {i}: reopen_output returned {e}"),
                    );
                    failed = true;
                    break;
                }
            }
            Op::Reset => {
                fam_idx += 1;
                if fam_idx > 20 {
                    continue;
                }
                let mut new_cfg = gen_family(rng, &base, fam_idx, wmode, l2, fmt, crlf);
                // now and then the very same file specification, only with rotation switched on:
                // the records after the reset belong to the rotation family (<name>_rCURRENT ...),
                // the file without infix keeps what was logged before
                if cfg.names.naming == NamingK::NoRotation && rng.chance(1, 3) {
                    new_cfg = cfg.clone();
                    new_cfg.names.naming = if rng.chance(1, 2) { NamingK::Numbers } else { NamingK::Timestamps };
                    new_cfg.crit = Some(Crit::Size(*rng.pick(&[30u64, 120, 1000])));
                    res.count("resets_that_only_switch_rotation_on", 1);
                }
                script.push(format!(
                    "reset_flw -> {} {} in {}",
                    new_cfg.names.basename,
                    new_cfg.names.naming.label(),
                    new_cfg.names.dir.file_name().unwrap_or_default().to_string_lossy()
                ));
                if let Err(e) = driver.reset(&new_cfg) {
                    res.violate(
                        "op-error",
                        format!("C18/reset-error/{}", cfg.wmode.label()),
                        format!("op {i}: reset_flw returned {e}"),
                    );
                    failed = true;
                    break;
                }
                if cfg.crit.is_some() {
                    n_rot_families += 1;
                }
                let old_model = std::mem::replace(&mut model, Model::new(&new_cfg));
                old_families.push((cfg.clone(), old_model));
                cfg = new_cfg;
                n_reset += 1;
            }
        }
    }
    driver.shutdown();
    flw::uninstall_virtual();
    let facts = format!("{}/{}", wmode.label(), if l2 { "L2" } else { "L1" });
    if !failed {
        // every family: exact partition
        old_families.push((cfg.clone(), model));
        for (fi, (fcfg, fmodel)) in old_families.iter().enumerate() {
            if !fmodel.active && fmodel.current.is_none() && fmodel.rotated.is_empty() {
                // nothing was ever written to this family: no file may exist
                if let Ok(obs) = family::observe(&fcfg.names) {
                    if !obs.family.is_empty() {
                        res.violate(
                            "unexpected-files",
                            format!("C18/unexpected-files/{facts}"),
                            format!("family #{fi} was never written to but has {:?}", obs.names()),
                        );
                    }
                }
                continue;
            }
            let obs = match family::observe(&fcfg.names) {
                Ok(o) => o,
                Err(e) => {
                    res.violate(
                        "family-missing",
                        format!("C18/family-missing/{facts}"),
                        format!("family #{fi} in {}: {e}", fcfg.names.dir.display()),
                    );
                    continue;
                }
            };
            res.count("families_compared", 1);
            res.count("files_compared", obs.family.len() as u64);
            if let Err((kind, detail)) = flw::compare_partition(fcfg, fmodel, &obs, false, false) {
                let what = if fi + 1 == old_families.len() {
                    "current-family"
                } else {
                    "family-before-reset"
                };
                res.violate(
                    "family-contents",
                    format!("C18/{what}-{kind}/{facts}/naming={}", fcfg.names.naming.label()),
                    format!("family #{fi} ({}): {detail}", fcfg.names.basename),
                );
            }
        }
        for (p, exp) in &renamed {
            res.count("renamed_files_compared", 1);
            match std::fs::read(p) {
                Err(e) => res.violate(
                    "renamed-file-missing",
                    format!("C18/renamed-file-missing/{facts}"),
                    format!("{}: {e}", p.display()),
                ),
                Ok(got) => {
                    if let Some(d) = flw::diff_bytes(exp, &got) {
                        res.violate(
                            "renamed-file-content",
                            format!("C18/renamed-file-content/{facts}"),
                            format!(
                                "{} must hold exactly the records logged before the rename: {d}",
                                p.file_name().unwrap_or_default().to_string_lossy()
                            ),
                        );
                    }
                }
            }
        }
    }
    res.absorb_panics("C18", "reopen/reset history");
    res.count("records", seq);
    res.count("rename_reopen", n_reopen);
    res.count("remove_reopen", n_remove);
    res.count("reset_flw", n_reset);
    res.nontrivial = (n_reopen + n_remove + n_reset) >= 1 && seq >= 2;
    res.shape = format!(
        "{shape_base}|{}|{}|{}|{}",
        if n_reopen > 0 { "rename" } else { "-" },
        if n_remove > 0 { "remove" } else { "-" },
        match n_reset {
            0 => "reset0",
            1 => "reset1",
            _ => "reset2+",
        },
        if n_rot_families > 0 || cfg.crit.is_some() { "rot" } else { "norot" }
    );
    if ctx.case < 2 || res.verdict != Verdict::Held {
        res.sample = Some(json!({
            "first_family": cfg.to_json(),
            "script": script.iter().take(70).collect::<Vec<_>>(),
            "script_len": script.len(),
        }));
    }
    res
}
