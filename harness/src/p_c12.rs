//! C12 — concurrent specification changes end in one consistent specification and gate.
//! All merge orders of the hook-granularity steps of 2–3 concurrent calls are executed
//! deterministically by parking the calling threads at spec_enter / spec_updated / spec_exit
//! (Appendix F); an uncontrolled stress variant adds OS-scheduled runs.

use crate::ctl::{self, Parked};
use crate::spec::{self, MSpec, RecWriter, Recorder};
use crate::util::{CaseCtx, CaseResult, Verdict};
use flexi_logger::{Logger, LoggerHandle};
use log::LevelFilter;
use serde_json::json;
use std::time::Duration;

#[derive(Clone, Debug)]
enum Call {
    Set(MSpec),
    Parse(MSpec, String),
    Push(MSpec),
    /// pops what was saved by a push issued on this clone before the concurrent phase
    Pop,
}

fn all_schedules(n_threads: usize, steps: usize) -> Vec<Vec<usize>> {
    fn rec(left: &mut Vec<usize>, cur: &mut Vec<usize>, out: &mut Vec<Vec<usize>>) {
        if left.iter().all(|x| *x == 0) {
            out.push(cur.clone());
            return;
        }
        for t in 0..left.len() {
            if left[t] > 0 {
                left[t] -= 1;
                cur.push(t);
                rec(left, cur, out);
                cur.pop();
                left[t] += 1;
            }
        }
    }
    let mut out = Vec::new();
    rec(&mut vec![steps; n_threads], &mut Vec::new(), &mut out);
    out
}

struct Outcome {
    fingerprint: String,
    final_ok: Result<(), (String, String)>,
    inconclusive: Option<String>,
}

/// the name notify-debouncer-mini gives the thread on which the specfile watcher applies a change
const WATCHER: &str = "notify-rs debouncer loop";

#[allow(clippy::too_many_arguments)]
fn execute(
    initial: &MSpec,
    calls: &[Call],
    pre_push: &[Option<MSpec>],
    schedule: Option<&[usize]>,
    noise_seed: u64,
    // the specfile watcher as one more participant: (fresh directory, specification written to
    // the specfile while the other calls are under way); it is participant number calls.len()
    watch: Option<(&std::path::Path, &MSpec)>,
) -> Outcome {
    let sink = Recorder::default();
    let builder = Logger::with(initial.to_real_via_builder())
        .log_to_writer(Box::new(RecWriter {
            rec: sink.clone(),
            ceiling: LevelFilter::Trace,
            honour_ceiling: false,
        }))
        .error_channel(crate::flw::error_channel());
    // an additional writer whose own ceiling lies below most specifications: the gate is the
    // maximum of the active specification and the writers' ceilings, never the writers' alone
    // (chosen from the first submitted specification, so that every execution of a case agrees)
    let builder = match initial.entries.len() % 3 {
        0 => builder,
        k => builder.add_writer(
            "A",
            Box::new(RecWriter {
                rec: Recorder::default(),
                ceiling: if k == 1 { LevelFilter::Error } else { LevelFilter::Off },
                honour_ceiling: true,
            }),
        ),
    };
    let specfile = watch.map(|(d, _)| d.join("logspec.toml"));
    let built = match &specfile {
        // the file does not exist yet: it is created with the initial specification
        Some(f) => builder.build_with_specfile(f),
        None => builder.build(),
    };
    let (boxed, handle) = match built {
        Ok(x) => x,
        Err(e) => {
            return Outcome {
                fingerprint: String::new(),
                final_ok: Err(("build-failed".into(), format!("{e:?}"))),
                inconclusive: None,
            }
        }
    };
    let n = calls.len();
    // sequential pre-phase: clones that will pop push first (each clone has its own stack)
    let mut clones: Vec<LoggerHandle> = (0..n).map(|_| handle.clone()).collect();
    let mut active = initial.with_builder_default();
    let mut submitted: Vec<MSpec> = Vec::new();
    for (i, c) in calls.iter().enumerate() {
        if let (Call::Pop, Some(p)) = (c, &pre_push[i]) {
            clones[i].push_temp_spec(p.to_real_via_builder());
            // the pop of the concurrent phase re-activates what was active before this push
            submitted.push(active.clone());
            active = p.with_builder_default();
        } else {
            submitted.push(match c {
                Call::Set(m) | Call::Push(m) => m.with_builder_default(),
                Call::Parse(m, _) => m.clone(),
                Call::Pop => active.clone(),
            });
        }
    }
    let mut names: Vec<String> = (0..n).map(|i| format!("c12-t{i}")).collect();
    if let Some((_, fspec)) = watch {
        names.push(WATCHER.to_string());
        // from_toml adds no default entry
        submitted.push((*fspec).clone());
    }
    let name_refs: Vec<&str> = names.iter().map(String::as_str).collect();
    ctl::install(false);
    if schedule.is_some() {
        ctl::sched_control(&name_refs, &["spec_enter", "spec_updated", "spec_exit"]);
        if watch.is_some() {
            ctl::sched_finish_after(WATCHER, "spec_exit");
        }
    } else {
        ctl::with_ctl(|c| {
            c.noise_state = noise_seed | 1;
            c.noise_max_us = 200;
            c.noise_points = vec!["spec_enter".into(), "spec_updated".into(), "spec_exit".into()];
        });
    }
    let mut joins = Vec::new();
    for (i, c) in calls.iter().enumerate() {
        let mut h = clones.remove(0);
        let c = c.clone();
        let tname = names[i].clone();
        joins.push(
            std::thread::Builder::new()
                .name(tname.clone())
                .spawn(move || {
                    match c {
                        Call::Set(m) => h.set_new_spec(m.to_real_via_builder()),
                        Call::Parse(_, s) => {
                            let _ = h.parse_new_spec(&s);
                        }
                        Call::Push(m) => h.push_temp_spec(m.to_real_via_builder()),
                        Call::Pop => h.pop_temp_spec(),
                    }
                    ctl::sched_finished(&tname);
                    // keep the clone alive until the end of the execution: dropping a clone
                    // shuts the writers down (C04's business)
                    h
                })
                .expect("spawn"),
        );
    }
    let mut inconclusive = None;
    if let (Some((_, fspec)), Some(f)) = (watch, &specfile) {
        // one write; the debouncer hands the change to the watcher about a second later
        if let Err(e) = std::fs::write(f, fspec.to_toml_text()) {
            inconclusive = Some(format!("cannot write the specfile: {e}"));
        }
    }
    if let Some(sched) = schedule {
        // everybody parks at spec_enter first
        for t in &names {
            if ctl::sched_wait(t, Duration::from_secs(10)) == Parked::Timeout {
                inconclusive = Some(format!("{t} never reached spec_enter"));
            }
        }
        let mut running: Vec<bool> = vec![false; names.len()];
        if inconclusive.is_none() {
            for &t in sched {
                // a thread released earlier may meanwhile have parked or finished
                for (u, r) in running.iter_mut().enumerate() {
                    if *r && ctl::sched_peek(&names[u]) != Parked::Timeout {
                        *r = false;
                    }
                }
                match ctl::sched_peek(&names[t]) {
                    Parked::Finished => continue,
                    Parked::Timeout => continue, // blocked on a lock held by a parked thread
                    Parked::At(_) => {}
                }
                match ctl::sched_step(&names[t], Duration::from_millis(10)) {
                    Parked::Timeout => running[t] = true,
                    _ => running[t] = false,
                }
            }
            // drain: release whoever is parked until everybody has finished
            let deadline = std::time::Instant::now() + Duration::from_secs(30);
            loop {
                let mut all_done = true;
                for t in &names {
                    match ctl::sched_peek(t) {
                        Parked::Finished => {}
                        Parked::At(_) => {
                            all_done = false;
                            ctl::sched_step(t, Duration::from_millis(10));
                        }
                        Parked::Timeout => all_done = false,
                    }
                }
                if all_done {
                    break;
                }
                if std::time::Instant::now() > deadline {
                    inconclusive = Some("controller: threads did not finish within 30 s".into());
                    break;
                }
            }
        }
    }
    let fingerprint = ctl::sched_log()
        .iter()
        .map(|(t, p)| {
            format!(
                "{}{}",
                if t == WATCHER { "w" } else { t.trim_start_matches("c12-t") },
                match p.as_str() {
                    "spec_enter" => "e",
                    "spec_updated" => "u",
                    _ => "x",
                }
            )
        })
        .collect::<Vec<_>>()
        .join("");
    if inconclusive.is_some() {
        ctl::sched_reset();
    }
    let mut kept = Vec::new();
    for j in joins {
        if let Ok(h) = j.join() {
            kept.push(h);
        }
    }
    // with a watcher the controller stays in place while the final state is judged: should the
    // debouncer deliver a second event for the one write, the watcher parks instead of changing
    // the specification under the judge's eyes
    if watch.is_none() {
        ctl::uninstall();
    }

    // ------------------------------------------------------------ judge the final state
    let mut refs: Vec<&MSpec> = submitted.iter().collect();
    let init_d = initial.with_builder_default();
    refs.push(&init_d);
    let targets = spec::grid_targets(&refs);
    let max = log::max_level();
    let mut final_ok: Result<(), (String, String)> = Err((
        "no-submitted-spec-matches".into(),
        "the final filtering equals none of the submitted specifications as a whole".into(),
    ));
    let mut gate_problem: Option<String> = None;
    'cand: for cand in &submitted {
        // module filters through enabled(), text filter through delivery
        for t in &targets {
            for lvl in spec::LEVELS {
                let meta = log::Metadata::builder().level(lvl).target(t).build();
                if boxed.enabled(&meta) != cand.enabled(lvl, t) {
                    continue 'cand;
                }
            }
        }
        let msgs: Vec<String> = match &cand.text {
            Some(t) => t.messages(),
            None => vec!["foo tail".into(), "nothing relevant".into()],
        };
        for m in &msgs {
            // probe with a record that the module filters enable, if any
            for t in &targets {
                if cand.enabled(log::Level::Error, t) {
                    sink.take();
                    spec::with_rec(log::Level::Error, t, Some(t), m, |r| boxed.log(r));
                    let got = !sink.take().is_empty();
                    if got != cand.delivers(log::Level::Error, t, m) {
                        continue 'cand;
                    }
                    break;
                }
            }
        }
        // this candidate is what the logger filters by: the gate must admit what it enables
        let mut hidden = None;
        for t in &targets {
            for lvl in spec::LEVELS {
                if cand.enabled(lvl, t) && lvl > max {
                    hidden = Some(format!(
                        "final specification {:?} enables {lvl} for {t:?} but log::max_level() is {max}",
                        cand.entries
                    ));
                }
            }
        }
        match hidden {
            None => {
                final_ok = Ok(());
                gate_problem = None;
                break;
            }
            Some(h) => gate_problem = Some(h),
        }
    }
    if let (Err(_), Some(g)) = (&final_ok, gate_problem) {
        final_ok = Err(("gate-hides-final-spec".into(), g));
    }
    if watch.is_some() {
        let applications = ctl::sched_log()
            .iter()
            .filter(|(t, p)| t == WATCHER && p == "spec_enter")
            .count();
        let late = matches!(ctl::sched_peek(WATCHER), Parked::At(_));
        if inconclusive.is_none() && (applications != 1 || late) {
            // the one write was delivered as several changes: "all changes have returned" cannot
            // be told from outside for this execution
            inconclusive = Some(format!(
                "the watcher applied the one specfile write {applications} time(s){}",
                if late { ", once more while the final state was judged" } else { "" }
            ));
        }
        // stop the debouncer first, then let a parked late application run out
        drop(kept);
        drop(handle);
        ctl::sched_reset();
        ctl::uninstall();
        if late {
            std::thread::sleep(Duration::from_millis(100));
        }
        drop(boxed);
        return Outcome {
            fingerprint,
            final_ok,
            inconclusive,
        };
    }
    drop(kept);
    drop(handle);
    drop(boxed);
    Outcome {
        fingerprint,
        final_ok,
        inconclusive,
    }
}

pub fn run_case(ctx: &mut CaseCtx) -> CaseResult {
    let rng = &mut ctx.rng;
    // every 20th case has the specfile watcher as one more participant (each execution then
    // costs the debouncer's second, so few schedules per case)
    let watcher_case = ctx.case % 20 == 19;
    let n = if watcher_case {
        if rng.chance(1, 3) { 2 } else { 1 }
    } else if rng.chance(1, 4) {
        3
    } else {
        2
    };
    let initial = spec::gen_mspec(rng, false, false);
    let mut calls = Vec::new();
    let mut pre_push: Vec<Option<MSpec>> = Vec::new();
    for _ in 0..n {
        // specifications with different maximum levels and module sets
        let with_text = rng.chance(1, 4);
        let mut m = spec::gen_mspec(rng, with_text, false);
        if rng.chance(1, 2) {
            m.entries.retain(|e| e.0.is_some());
            m.entries.push((None, *rng.pick(&spec::FILTERS)));
        }
        match rng.below(5) {
            0 | 1 => {
                calls.push(Call::Set(m));
                pre_push.push(None);
            }
            2 => {
                let s = m.to_spec_string(rng);
                calls.push(Call::Parse(m, s));
                pre_push.push(None);
            }
            3 => {
                calls.push(Call::Push(m));
                pre_push.push(None);
            }
            _ => {
                calls.push(Call::Pop);
                pre_push.push(Some(m));
            }
        }
    }
    let kinds: Vec<&str> = calls
        .iter()
        .map(|c| match c {
            Call::Set(_) => "set",
            Call::Parse(..) => "parse",
            Call::Push(_) => "push",
            Call::Pop => "pop",
        })
        .collect();
    let mut res = CaseResult::new(format!("t{n}|{}", kinds.join("+")));
    if watcher_case {
        let with_text = rng.chance(1, 4);
        let mut fspec = spec::gen_mspec(rng, with_text, false);
        if rng.chance(1, 2) {
            fspec.entries.retain(|e| e.0.is_some());
            fspec.entries.push((None, *rng.pick(&spec::FILTERS)));
        }
        let mut scheds = all_schedules(n + 1, 3);
        for i in (1..scheds.len()).rev() {
            let j = rng.usize(i + 1);
            scheds.swap(i, j);
        }
        scheds.truncate(if ctx.thorough { 6 } else { 3 });
        let mut executed = 0u64;
        let mut unclear = 0u64;
        for (i, s) in scheds.iter().enumerate() {
            let d = ctx.dir.join(format!("w{i}"));
            let _ = std::fs::create_dir_all(&d);
            let o = execute(&initial, &calls, &pre_push, Some(s), 0, Some((&d, &fspec)));
            if let Some(w) = o.inconclusive {
                // one execution that cannot be judged does not void the others
                unclear += 1;
                res.add_to_set("watcher_executions_not_judged", w);
                continue;
            }
            executed += 1;
            res.add_to_set("executed_orders_with_watcher", o.fingerprint.clone());
            if let Err((kind, detail)) = o.final_ok {
                res.violate(
                    &kind,
                    format!("C12/{kind}/specfile-watcher"),
                    format!(
                        "schedule {s:?} (executed order {}; w = watcher thread), calls {kinds:?}, specfile {:?}: {detail}",
                        o.fingerprint, fspec.entries
                    ),
                );
                break;
            }
        }
        res.count("watcher_schedules_executed", executed);
        res.count("watcher_executions_unclear", unclear);
        if executed == 0 && res.verdict == Verdict::Held {
            res.inconclusive("no execution with the specfile watcher could be judged".to_string());
        }
        res.absorb_panics("C12", "concurrent reconfiguration with the specfile watcher");
        res.nontrivial = executed >= 1;
        res.shape = format!("{}|watcher", res.shape);
        if ctx.case < 40 || res.verdict != Verdict::Held {
            res.sample = Some(json!({
                "initial": format!("{:?}", initial.entries),
                "calls": calls.iter().map(|c| format!("{c:?}")).collect::<Vec<_>>(),
                "specfile": fspec.to_toml_text(),
                "executions": executed,
            }));
        }
        return res;
    }
    let controlled = ctx.case % 5 != 4;
    let mut executed = 0u64;
    if controlled {
        let mut scheds = all_schedules(n, 3);
        let total = scheds.len();
        // 2 threads: all 20; 3 threads: all 1680 in the thorough tier, a seeded sample otherwise
        if n == 3 && !ctx.thorough {
            for i in (1..scheds.len()).rev() {
                let j = rng.usize(i + 1);
                scheds.swap(i, j);
            }
            scheds.truncate(24);
        } else if n == 3 && ctx.case % 3 != 0 {
            for i in (1..scheds.len()).rev() {
                let j = rng.usize(i + 1);
                scheds.swap(i, j);
            }
            scheds.truncate(120);
        }
        if scheds.len() == total {
            res.count("tuples_with_all_schedules_executed", 1);
        }
        for s in &scheds {
            let o = execute(&initial, &calls, &pre_push, Some(s), 0, None);
            executed += 1;
            res.add_to_set("executed_orders", o.fingerprint.clone());
            if let Some(w) = o.inconclusive {
                res.inconclusive(w);
                break;
            }
            if let Err((kind, detail)) = o.final_ok {
                res.violate(
                    &kind,
                    format!("C12/{kind}"),
                    format!(
                        "schedule {s:?} (executed order {}), calls {kinds:?}: {detail}",
                        o.fingerprint
                    ),
                );
                break;
            }
        }
        res.count("controlled_schedules_executed", executed);
    } else {
        for k in 0..40u64 {
            let o = execute(&initial, &calls, &pre_push, None, rng.next() ^ k, None);
            executed += 1;
            if let Err((kind, detail)) = o.final_ok {
                res.violate(
                    &kind,
                    format!("C12/{kind}"),
                    format!("uncontrolled run {k}, calls {kinds:?}: {detail}"),
                );
                break;
            }
        }
        res.count("uncontrolled_runs", executed);
    }
    res.absorb_panics("C12", "concurrent reconfiguration");
    res.nontrivial = executed >= 1;
    res.shape = format!("{}|{}", res.shape, if controlled { "controlled" } else { "stress" });
    if ctx.case < 3 || res.verdict != Verdict::Held {
        res.sample = Some(json!({
            "initial": format!("{:?}", initial.entries),
            "calls": calls.iter().map(|c| format!("{c:?}")).collect::<Vec<_>>(),
            "pre_push": pre_push.iter().map(|p| p.as_ref().map(|m| format!("{:?}", m.entries))).collect::<Vec<_>>(),
            "executions": executed,
        }));
    }
    res
}
