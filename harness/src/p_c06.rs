//! C06 — restarting a logger never destroys or reorders earlier runs' records.
//! Oracle: persistent segment model across runs (Appendix B) + name → content history monitor.

use crate::ctl;
use crate::family::{self, Kind, NamingK};
use crate::flw::{self, AgeK, Clean, Crit, Driver, FlwCfg, FmtK, HOp, Hist, WMode};
use crate::util::{CaseCtx, CaseResult, Verdict, LEVELS};
use chrono::Local;
use serde_json::json;
use std::collections::HashMap;

const S: i64 = 1_000_000_000;

fn fnv(b: &[u8]) -> u64 {
    let mut h: u64 = 0xcbf2_9ce4_8422_2325;
    for x in b {
        h ^= u64::from(*x);
        h = h.wrapping_mul(0x0000_0100_0000_01B3);
    }
    h
}

// ------------------------------------------------------------------------------------------
// Daylight-saving time: wall-clock times in the hour that is repeated when DST ends are ambiguous.
// A child process in a DST zone runs a three-run history whose instants all lie in one pass of
// the repeated hour, and the same history exactly 7 days later (unambiguous times, same zone):
// restarts must treat the files alike (metamorphic oracle: same number of files, same records
// per file, same kind of infix), whatever the time stamps in the names resolve to.

const DST_ZONES: &[&str] = &["Europe/Berlin", "America/New_York", "Australia/Lord_Howe", "Pacific/Auckland"];

/// the instant (UTC seconds) in `year` at which the local offset of this process's zone drops,
/// and by how many seconds
fn fall_back_transition(year: i32) -> Option<(i64, i64)> {
    use chrono::TimeZone;
    let start = chrono::Utc.with_ymd_and_hms(year, 1, 1, 0, 0, 0).single()?.timestamp();
    let off = |t: i64| Local.timestamp_opt(t, 0).single().map(|d| i64::from(d.offset().local_minus_utc()));
    let mut prev = off(start)?;
    let mut t = start;
    for _ in 0..366 * 48 {
        let next = t + 1800;
        let o = off(next)?;
        if o < prev {
            // refine to the second is not needed: transitions are on half-hour boundaries
            return Some((next, prev - o));
        }
        prev = o;
        t = next;
    }
    None
}

/// the instant at which the local offset rises (DST begins), and by how many seconds
fn spring_forward_transition(year: i32) -> Option<(i64, i64)> {
    use chrono::TimeZone;
    let start = chrono::Utc.with_ymd_and_hms(year, 1, 1, 0, 0, 0).single()?.timestamp();
    let off = |t: i64| Local.timestamp_opt(t, 0).single().map(|d| i64::from(d.offset().local_minus_utc()));
    let mut prev = off(start)?;
    let mut t = start;
    for _ in 0..366 * 48 {
        let next = t + 1800;
        let o = off(next)?;
        if o > prev {
            return Some((next, o - prev));
        }
        prev = o;
        t = next;
    }
    None
}

struct DstScenario {
    naming: NamingK,
    append: [bool; 3],
    second_pass: bool,
    suffix: Option<String>,
    writes: [usize; 6],
    trigger_in_run: [bool; 3],
    /// a family file whose time stamp lies in the hour that is skipped when DST begins (a local
    /// time that does not exist; such names arise e.g. from files written with use_utc) is in the
    /// directory from the start
    gap_file: bool,
}

fn gen_dst(rng: &mut crate::rng::Rng) -> DstScenario {
    let naming = match rng.below(5) {
        0 => NamingK::Timestamps,
        1 | 2 => NamingK::TimestampsDirect,
        3 => NamingK::Custom { fmt: "%Y%m%dT%H%M%S".into(), current: None },
        _ => NamingK::Custom { fmt: "ts%Y-%m-%d_%H-%M-%S".into(), current: Some("CUR".into()) },
    };
    DstScenario {
        naming,
        append: [rng.chance(1, 2), rng.chance(2, 3), rng.chance(2, 3)],
        second_pass: rng.chance(1, 2),
        suffix: if rng.chance(1, 4) { None } else { Some("log".into()) },
        writes: [1 + rng.usize(3), 1 + rng.usize(3), 1 + rng.usize(3), 1 + rng.usize(3), 1 + rng.usize(3), 1 + rng.usize(3)],
        trigger_in_run: [true, rng.chance(1, 2), rng.chance(1, 3)],
        gap_file: rng.chance(1, 3),
    }
}
// (with a file from the skipped hour in place the first run does not append: whether a logger
// that appends continues in a file whose time stamp cannot be resolved is not what is compared)

/// one history; returns per family file (in the order of the independent family parser): (infix
/// shape, record ids)
fn dst_history(
    sc: &DstScenario,
    dir: &std::path::Path,
    instants: &[i64; 7],
    preplaced_naive: Option<chrono::NaiveDateTime>,
) -> Result<Vec<(String, Vec<u64>)>, String> {
    let names = family::NameCfg {
        dir: dir.to_path_buf(),
        basename: "dst".into(),
        discr: None,
        start_ts: None,
        suffix: sc.suffix.clone(),
        naming: sc.naming.clone(),
    };
    let mut preplaced_name: Option<String> = None;
    if let (Some(naive), Some(fmt)) = (preplaced_naive, names.naming.ts_fmt()) {
        let _ = std::fs::create_dir_all(dir);
        let infix = naive.format(fmt).to_string();
        std::fs::write(names.path(&infix), b"from an earlier life\n").map_err(|e| e.to_string())?;
        preplaced_name = Some(names.compose(&infix));
    }
    let mut seq = 0u64;
    for run in 0..3 {
        let cfg = FlwCfg {
            names: names.clone(),
            use_ts: false,
            crit: Some(Crit::Size(1_000_000)),
            clean: Clean::Never,
            clean_bg: false,
            wmode: WMode::Direct,
            crlf: false,
            append: sc.append[run],
            symlink: None,
            use_utc: false,
            max_level: log::LevelFilter::Trace,
            fmt: FmtK::Raw,
            l2: false,
        };
        // instants: [run0 start, run0 after trigger, run1 start, run1 after trigger, run2 start, run2 after trigger, unused]
        ctl::clock_set(instants[2 * run] * 1_000_000_000);
        let mut d = Driver::build(&cfg).map_err(|e| format!("run {run}: build failed: {e}"))?;
        for _ in 0..sc.writes[2 * run] {
            d.write(log::Level::Info, &flw::msg_id(0, 0, seq, 6));
            seq += 1;
        }
        if sc.trigger_in_run[run] {
            ctl::clock_set(instants[2 * run + 1] * 1_000_000_000);
            d.rotate().map_err(|e| format!("run {run}: trigger_rotation failed: {e}"))?;
            for _ in 0..sc.writes[2 * run + 1] {
                d.write(log::Level::Info, &flw::msg_id(0, 0, seq, 6));
                seq += 1;
            }
        }
        if run == 2 {
            // the listing (everything incl. the current file) against the directory itself
            d.flush();
            let mut sel = flexi_logger::LogfileSelector::default().with_r_current().with_compressed_files();
            if let Some(c) = names.naming.current_infix() {
                sel = sel.with_custom_current(c);
            }
            let listed: std::collections::BTreeSet<String> = d
                .existing_log_files(&sel)
                .map_err(|e| format!("existing_log_files failed: {e}"))?
                .iter()
                .filter_map(|p| p.file_name().map(|n| n.to_string_lossy().to_string()))
                .collect();
            let there: std::collections::BTreeSet<String> = family::observe(&names)
                .map_err(|e| e.to_string())?
                .names()
                .into_iter()
                .collect();
            // (whether a file stamped with a wall-clock time that never existed belongs to the
            // family is left open: the logger itself cannot have produced it in this configuration)
            let without = |set: &std::collections::BTreeSet<String>| -> std::collections::BTreeSet<String> {
                set.iter().filter(|n| Some(*n) != preplaced_name.as_ref()).cloned().collect()
            };
            if without(&listed) != without(&there) {
                return Err(format!("existing_log_files gives {listed:?}, the family in the directory is {there:?}"));
            }
        }
        d.shutdown();
    }
    let obs = family::observe(&names).map_err(|e| e.to_string())?;
    if !obs.foreign.is_empty() {
        return Err(format!("files outside the family: {:?}", obs.foreign));
    }
    let mut out = Vec::new();
    for f in &obs.family {
        let shape = match &f.entry.kind {
            family::Kind::Current => "current".to_string(),
            family::Kind::Ts(_, r) if *r >= 0 => format!("ts.restart-{r:04}"),
            family::Kind::Ts(..) => "ts".to_string(),
            k => format!("{k:?}"),
        };
        let content = f.content.clone().map_err(|e| e.to_string())?;
        let ids: Vec<u64> = String::from_utf8_lossy(&content)
            .lines()
            .filter_map(|l| flw::parse_msg_id(l).map(|(_, _, s)| s))
            .collect();
        out.push((shape, ids));
    }
    Ok(out)
}

pub fn child_main(a: &crate::child::ChildArgs) -> i32 {
    let mut ctx = crate::child::ctx_of(a);
    let mut sc = gen_dst(&mut ctx.rng);
    if sc.gap_file {
        sc.append[0] = false;
    }
    let Some((t, drop_s)) = fall_back_transition(2021) else {
        println!("DST-INCONCLUSIVE no fall-back transition found in this zone");
        return 0;
    };
    // all instants inside one pass of the repeated interval (length drop_s), 3 minutes apart
    let step = (drop_s / 10).min(180);
    let first = if sc.second_pass { t + step } else { t - drop_s + step };
    let mut instants = [0i64; 7];
    for (i, x) in instants.iter_mut().enumerate() {
        *x = first + i as i64 * step;
    }
    let week = 7 * 86_400;
    let shifted = instants.map(|x| x + week);
    // a wall-clock time in the middle of the interval that was skipped in spring of the same
    // year, and the same time of day a week later (which exists)
    let gap = if sc.gap_file {
        // the latest beginning of DST before the repeated interval (southern zones: the year before)
        [2021, 2020].iter().filter_map(|y| spring_forward_transition(*y)).find(|(tt, _)| *tt < t).and_then(|(tt, jump)| {
            use chrono::TimeZone;
            let before = Local.timestamp_opt(tt - 1, 0).single()?.naive_local();
            Some(before + chrono::Duration::seconds(1 + jump / 2))
        })
    } else {
        None
    };
    flw::install_virtual(instants[0] * 1_000_000_000);
    let amb = dst_history(&sc, &a.dir.join("ambiguous"), &instants, gap);
    flw::uninstall_virtual();
    flw::install_virtual(shifted[0] * 1_000_000_000);
    let plain = dst_history(&sc, &a.dir.join("plain"), &shifted, gap.map(|g| g + chrono::Duration::days(7)));
    flw::uninstall_virtual();
    let desc = format!(
        "naming {}, append {:?}, {} pass of the repeated interval ({} s), triggers {:?}{}",
        sc.naming.label(),
        sc.append,
        if sc.second_pass { "second" } else { "first" },
        drop_s,
        sc.trigger_in_run,
        match gap {
            Some(g) => format!(", a file stamped {g} (skipped in spring) is there from the start"),
            None => String::new(),
        }
    );
    match (amb, plain) {
        (Ok(a1), Ok(p1)) => {
            if a1 == p1 {
                println!("DST-OK files={} {desc}", a1.len());
            } else {
                println!("DST-VIOLATION in the repeated interval the files are {a1:?}, one week later {p1:?}; {desc}");
            }
        }
        (Err(e), Ok(_)) => println!("DST-VIOLATION in the repeated interval: {e} (fine one week later); {desc}"),
        (Ok(_), Err(e)) => println!("DST-INCONCLUSIVE the reference week failed: {e}; {desc}"),
        (Err(e), Err(e2)) => println!("DST-INCONCLUSIVE both failed: {e} / {e2}; {desc}"),
    }
    0
}

fn dst_case(ctx: &mut CaseCtx) -> CaseResult {
    dst_case_for(ctx, "C06")
}

/// also used by C10 (no panic whatever the zone and the clock)
pub fn dst_case_for(ctx: &mut CaseCtx, prop: &str) -> CaseResult {
    let zone = DST_ZONES[(ctx.case / 16) as usize % DST_ZONES.len()];
    let mut res = CaseResult::new(format!("dst|{zone}"));
    let out = match crate::child::spawn(&crate::child::Spawn {
        ctx,
        role: "dst",
        extra: vec![],
        env: vec![("TZ".into(), zone.into())],
        timeout: std::time::Duration::from_secs(20),
        tag: "dst",
        cwd: None,
        kill_after: None,
    }) {
        Ok(o) => o,
        Err(e) => {
            res.inconclusive(format!("cannot spawn child: {e}"));
            return res;
        }
    };
    let text = String::from_utf8_lossy(&out.stdout).to_string();
    let line = text.lines().find(|l| l.starts_with("DST-")).unwrap_or("").to_string();
    res.count("dst_children", 1);
    let errtext = String::from_utf8_lossy(&out.stderr).to_string();
    // the child's panic hook prints: FLMON-CHILD-PANIC thread=<t> at=<file>:<line> msg=<..>
    if let Some(p) = errtext.lines().find(|l| {
        l.starts_with("FLMON-CHILD-PANIC")
            && crate::util::in_repo_file(l.split(" at=").nth(1).unwrap_or(""))
    }) {
        res.nontrivial = true;
        let at = p.split(" at=").nth(1).unwrap_or("").split(' ').next().unwrap_or("").to_string();
        let file = at.split(':').next().unwrap_or("").to_string();
        res.violate(
            "panic",
            format!("{prop}/panic/dst/{}", crate::util::repo_rel(&file)),
            format!("TZ={zone}: the child panicked in repository code: {}", p.chars().take(400).collect::<String>()),
        );
        return res;
    }
    if let Some(rest) = line.strip_prefix("DST-OK ") {
        res.nontrivial = true;
        res.add_to_set("dst_scenarios", rest.split(' ').skip(1).collect::<Vec<_>>().join(" "));
        res.count("dst_histories_compared", 1);
    } else if let Some(rest) = line.strip_prefix("DST-VIOLATION ") {
        res.nontrivial = true;
        res.violate(
            "dst-ambiguous-local-time",
            format!("{prop}/dst-repeated-hour-differs/{zone}"),
            format!("TZ={zone}: {rest}"),
        );
    } else {
        res.inconclusive(format!(
            "DST child: {} / {}; stdout {:?}; stderr {:?}",
            out.describe(),
            line,
            text.chars().take(200).collect::<String>(),
            String::from_utf8_lossy(&out.stderr).chars().take(300).collect::<String>()
        ));
    }
    if ctx.case < 64 || res.verdict != Verdict::Held {
        res.sample = Some(json!({"zone": zone, "child_says": line}));
    }
    res
}

pub fn run_case(ctx: &mut CaseCtx) -> CaseResult {
    if ctx.case % 16 == 9 {
        return dst_case(ctx);
    }
    let rng = &mut ctx.rng;
    // equivalent builder call sequences (see flw::set_build_variant)
    flw::set_build_variant(rng.below(8) as u8);
    let rotation = !rng.chance(1, 8);
    let naming = if rotation {
        flw::gen_naming(rng, true)
    } else {
        NamingK::NoRotation
    };
    let crit = if rotation {
        Some(match rng.below(4) {
            0 => Crit::Age(*rng.pick(&[AgeK::Second, AgeK::Minute, AgeK::Day])),
            1 => Crit::AgeOrSize(AgeK::Hour, *rng.pick(&[30u64, 200])),
            _ => Crit::Size(*rng.pick(&[0u64, 20, 60, 300])),
        })
    } else {
        None
    };
    let clean = if !rotation {
        Clean::Never
    } else {
        match rng.below(8) {
            0..=3 => Clean::Never,
            4 => Clean::Logs(rng.usize(5)),
            5 => Clean::Gz(rng.usize(5)),
            _ => Clean::Both(rng.usize(4), rng.usize(4)),
        }
    };
    let (mut names, _) = flw::gen_name_parts(rng, &ctx.dir, naming, false);
    if !rotation && names.fixed().is_empty() {
        // without rotation there is no infix: an empty fixed part would mean an empty file name
        names.basename = "solo".to_string();
    }
    let tz_offset = Local::now().offset().local_minus_utc();
    let cfg = FlwCfg {
        names,
        use_ts: false,
        crit,
        clean,
        clean_bg: rng.chance(1, 3),
        wmode: match rng.below(4) {
            0 => WMode::BufDont(*rng.pick(&[1usize, 64, 8192])),
            _ => WMode::Direct,
        },
        crlf: false,
        append: rng.chance(1, 2),
        symlink: None,
        use_utc: rng.chance(1, 6),
        max_level: log::LevelFilter::Trace,
        fmt: FmtK::Raw,
        l2: rng.chance(1, 5),
    };
    let runs = rng.range(2, 6) as usize;
    let dot_no_suffix = cfg.names.suffix.is_none() && cfg.fixed_contains_dot();

    let naming_label = match &cfg.names.naming {
        NamingK::Custom { fmt, current: None } => format!("CustomDirect({fmt})"),
        n => n.label().to_string(),
    };
    let shape_base = format!(
        "{}|{}|{}|{}|{}|tz{}{}",
        if cfg.l2 { "L2" } else { "L1" },
        cfg.names.naming.label(),
        crit.map(|c| c.label()).unwrap_or_else(|| "-".into()),
        cfg.clean.label(),
        cfg.wmode.label(),
        tz_offset / 60,
        if cfg.use_utc { "|utc" } else { "" },
    );
    let mut res = CaseResult::new(shape_base.clone());
    let t0 = flw::base_time_ns(rng);
    flw::install_virtual(t0);

    // the model never trims: with cleanup the observation must be a contiguous tail of it
    let mut hist = match Hist::start(cfg.clone()) {
        Ok(h) => h,
        Err(e) => {
            res.violate("build-failed", "C06/build-failed", e);
            flw::uninstall_virtual();
            return res;
        }
    };
    hist.model.no_trim = true;

    // name history: name -> (hash of decoded content, len, was current)
    let mut name_hist: HashMap<String, (u64, usize)> = HashMap::new();
    let mut script: Vec<String> = Vec::new();
    let mut same_second_restarts = 0u64;
    let mut gz_only_restarts = 0u64;
    let mut mutations = 0u64;
    let mut comparisons = 0u64;
    let mut total_rotations_seen = 0usize;
    let mut ok = true;

    'runs: for run in 0..runs {
        // facts of this run's start
        let run_append = hist.cfg.append;
        let start_now = hist.now();
        let same_second = hist
            .model
            .current
            .as_ref()
            .map(|c| c.started_ns / S == start_now / S)
            .unwrap_or(false);
        if run > 0 && same_second {
            same_second_restarts += 1;
        }
        // the file that is current when this run starts has a same-second sibling
        let restart_sibling = run > 0
            && hist.cfg.names.naming.is_direct()
            && match (
                &hist.model.current,
                hist.model.rotated.last(),
                hist.cfg.names.naming.ts_fmt(),
            ) {
                (Some(c), Some(r), Some(fmt)) => {
                    let f = |ns: i64| ctl::local_from_ns(ns).format(fmt).to_string();
                    f(c.started_ns) == f(r.started_ns)
                }
                _ => false,
            };
        let nops = rng.range(1, if ctx.thorough { 40 } else { 18 }) as usize;
        for _ in 0..nops {
            let op = match rng.below(10) {
                0..=5 => HOp::Write(*rng.pick(&LEVELS), rng.usize(40)),
                6 => HOp::Trigger,
                7 => HOp::Flush,
                _ => HOp::Advance(*rng.pick(&[0, 1_000_000, 300_000_000, S, 2 * S, 61 * S, 86_400 * S])),
            };
            script.push(format!("run{run}:{op:?}"));
            if let Err(e) = hist.apply(&op) {
                res.violate("op-error", "C06/op-error", format!("{op:?}: {e}"));
                ok = false;
                break 'runs;
            }
        }
        hist.shutdown();

        // ------------------------------------------------------------ observe after the run
        let obs = match hist.observe() {
            Ok(o) => o,
            Err(e) => {
                res.inconclusive(format!("cannot read directory: {e}"));
                ok = false;
                break;
            }
        };
        comparisons += 1;
        total_rotations_seen = total_rotations_seen.max(obs.family.len().saturating_sub(1));
        let mut facts = format!(
            "naming={naming_label}/{}{}/cleanup={}",
            if run_append { "append" } else { "no-append" },
            if run > 0 && same_second { "/same-second" } else { "" },
            cfg.clean.label(),
        );
        if restart_sibling {
            facts.push_str("/current-has-restart-sibling");
        }
        if dot_no_suffix {
            facts.push_str("/dot-in-name+no-suffix");
        }
        if cfg.use_utc && tz_offset != 0 {
            facts.push_str("/use_utc+tz-offset");
        }
        if !obs.foreign.is_empty() {
            res.violate(
                "foreign-file-created",
                format!("C06/foreign-file-created/{facts}"),
                format!("after run {run}: {:?} (family {:?})", obs.foreign, obs.names()),
            );
            ok = false;
            break;
        }
        let verdict: Result<(), (String, String)> = if cfg.clean == Clean::Never {
            flw::compare_partition(&hist.cfg, &hist.model, &obs, false, false)
        } else {
            flw::survivor_check(&hist.cfg, &hist.model, &obs, false)
        };
        if let Err((kind, detail)) = verdict {
            res.violate(
                "earlier-records-damaged",
                format!("C06/{kind}/{facts}"),
                format!("after run {run} (append={run_append}): {detail}"),
            );
            ok = false;
            break;
        }
        // name → content history: a name seen before may keep its content, grow, disappear, or
        // be replaced by name.gz with the same decoded bytes
        let mut now_names: HashMap<String, (u64, usize, Vec<u8>)> = HashMap::new();
        for f in &obs.family {
            // the name of an rCURRENT-style current file is legitimately re-used after a rotation
            if matches!(f.entry.kind, Kind::Current) {
                continue;
            }
            if let Ok(c) = &f.content {
                let base = f.entry.name.trim_end_matches(".gz").to_string();
                now_names.insert(base, (fnv(c), c.len(), c.clone()));
            }
        }
        for (name, (h_old, len_old)) in &name_hist {
            if let Some((h_new, len_new, content)) = now_names.get(name) {
                let extends = *len_new >= *len_old && fnv(&content[..*len_old]) == *h_old;
                let truncation_documented = hist.cfg.crit.is_none() && !run_append;
                if !(h_new == h_old && len_new == len_old) && !extends && !truncation_documented {
                    res.violate(
                        "name-reused",
                        format!("C06/name-reused/{facts}"),
                        format!(
                            "after run {run}: file name {name} now holds content that does not extend what it held before ({len_old} -> {len_new} bytes)"
                        ),
                    );
                    ok = false;
                    break 'runs;
                }
            }
        }
        for (name, (h, len, _)) in now_names {
            name_hist.insert(name, (h, len));
        }
        res.count("files_compared", obs.family.len() as u64);

        if run + 1 == runs {
            break;
        }
        // ------------------------------------------------------------ between the runs
        let adv = *rng.pick(&[0i64, 0, 200_000_000, S, 5 * S, 3600 * S, 86_400 * S]);
        ctl::clock_advance(adv);
        script.push(format!("between: advance {adv}"));
        if rng.chance(1, 4) {
            // put the directory into a state a previous run can leave
            match rng.below(3) {
                0 => {
                    // current file missing
                    if let Some(last) = obs.family.last() {
                        let is_current = match (&last.entry.kind, cfg.names.naming.is_direct()) {
                            (Kind::Current | Kind::Plain, _) => true,
                            (_, true) => true,
                            _ => false,
                        };
                        // with a direct naming and a cleanup strategy the next-newest file may
                        // be compressed or gone: what "the current file" then is, is not defined
                        let defined = !cfg.names.naming.is_direct() || cfg.clean == Clean::Never;
                        if is_current && hist.model.current.is_some() && defined {
                            let p = cfg.names.dir.join(&last.entry.name);
                            let _ = std::fs::remove_file(&p);
                            ctl::creation_forget(&p);
                            name_hist.remove(last.entry.name.trim_end_matches(".gz"));
                            if cfg.names.naming.is_direct() {
                                // the next-newest file becomes the one a direct naming continues
                                hist.model.current = hist.model.rotated.pop();
                            } else {
                                hist.model.current = None;
                            }
                            mutations += 1;
                            script.push(format!("between: removed current {}", last.entry.name));
                        }
                    }
                }
                1 => {
                    // a gap: remove one rotated file that is not the newest rotated one
                    // (only when the observation is in step with the model)
                    let nrot = hist.model.rotated.len();
                    if cfg.clean == Clean::Never && nrot >= 3 && obs.family.len() == exp_len(&hist) {
                        let idx = rng.usize(nrot - 1);
                        let victim = &obs.family[idx];
                        let p = cfg.names.dir.join(&victim.entry.name);
                        let _ = std::fs::remove_file(&p);
                        ctl::creation_forget(&p);
                        name_hist.remove(victim.entry.name.trim_end_matches(".gz"));
                        hist.model.rotated.remove(idx);
                        mutations += 1;
                        script.push(format!("between: removed rotated {}", victim.entry.name));
                    }
                }
                _ => {}
            }
        }
        if obs.family.iter().filter(|f| !matches!(f.entry.kind, Kind::Current)).count() > 0
            && obs
                .family
                .iter()
                .filter(|f| !matches!(f.entry.kind, Kind::Current))
                .all(|f| f.entry.gz)
        {
            gz_only_restarts += 1;
        }
        let append = rng.chance(1, 2);
        script.push(format!("restart append={append}"));
        if let Err(e) = hist.apply(&HOp::Restart { append }) {
            res.violate(
                "restart-failed",
                format!("C06/restart-failed/naming={naming_label}"),
                format!("run {}: {e}", run + 1),
            );
            ok = false;
            break;
        }
    }
    if !ok {
        hist.shutdown();
    }
    res.absorb_panics("C06", "restart history");
    flw::uninstall_virtual();

    res.count("runs", hist.restarts + 1);
    res.count("records", hist.records);
    res.count("comparisons", comparisons);
    res.count("same_second_restarts", same_second_restarts);
    res.count("restarts_with_only_compressed_rotated_files", gz_only_restarts);
    res.count("directory_mutations_between_runs", mutations);
    res.count("documented_truncations", hist.model.truncations);
    res.nontrivial = hist.restarts >= 1 && hist.records >= 2 && comparisons >= 2;
    res.shape = format!(
        "{shape_base}|{}|{}|{}",
        if same_second_restarts > 0 { "same-sec" } else { "-" },
        if mutations > 0 { "mutated" } else { "-" },
        match total_rotations_seen {
            0 => "r0",
            1..=3 => "r1-3",
            _ => "r4+",
        }
    );
    if ctx.case < 2 || res.verdict != Verdict::Held {
        res.sample = Some(json!({
            "config": cfg.to_json(),
            "t0": ctl::local_from_ns(t0).to_rfc3339(),
            "script": script.iter().take(80).collect::<Vec<_>>(),
            "script_len": script.len(),
        }));
    }
    res
}

fn exp_len(hist: &Hist) -> usize {
    hist.model.contents().len()
}

