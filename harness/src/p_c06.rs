//! C06 — restarting a logger never destroys or reorders earlier runs' records.
//! Oracle: persistent segment model across runs (Appendix B) + name → content history monitor.

use crate::ctl;
use crate::family::{Kind, NamingK};
use crate::flw::{self, AgeK, Clean, Crit, FlwCfg, FmtK, HOp, Hist, WMode};
use crate::util::{CaseCtx, CaseResult, Verdict, LEVELS};
use chrono::Local;
use serde_json::json;
use std::collections::HashMap;

const S: i64 = 1_000_000_000;

fn fnv(b: &[u8]) -> u64 {
    let mut h: u64 = 0xcbf2_9ce4_8422_2325;
    for x in b {
        h ^= u64::from(*x);
        h = h.wrapping_mul(0x0000_0100_0000_01B3);
    }
    h
}

pub fn run_case(ctx: &mut CaseCtx) -> CaseResult {
    let rng = &mut ctx.rng;
    let rotation = !rng.chance(1, 8);
    let naming = if rotation {
        flw::gen_naming(rng, true)
    } else {
        NamingK::NoRotation
    };
    let crit = if rotation {
        Some(match rng.below(4) {
            0 => Crit::Age(*rng.pick(&[AgeK::Second, AgeK::Minute, AgeK::Day])),
            1 => Crit::AgeOrSize(AgeK::Hour, *rng.pick(&[30u64, 200])),
            _ => Crit::Size(*rng.pick(&[0u64, 20, 60, 300])),
        })
    } else {
        None
    };
    let clean = if !rotation {
        Clean::Never
    } else {
        match rng.below(8) {
            0..=3 => Clean::Never,
            4 => Clean::Logs(rng.usize(5)),
            5 => Clean::Gz(rng.usize(5)),
            _ => Clean::Both(rng.usize(4), rng.usize(4)),
        }
    };
    let (mut names, _) = flw::gen_name_parts(rng, &ctx.dir, naming, false);
    if !rotation && names.fixed().is_empty() {
        // without rotation there is no infix: an empty fixed part would mean an empty file name
        names.basename = "solo".to_string();
    }
    let tz_offset = Local::now().offset().local_minus_utc();
    let cfg = FlwCfg {
        names,
        use_ts: false,
        crit,
        clean,
        clean_bg: rng.chance(1, 3),
        wmode: match rng.below(4) {
            0 => WMode::BufDont(*rng.pick(&[1usize, 64, 8192])),
            _ => WMode::Direct,
        },
        crlf: false,
        append: rng.chance(1, 2),
        symlink: None,
        use_utc: rng.chance(1, 6),
        max_level: log::LevelFilter::Trace,
        fmt: FmtK::Raw,
        l2: rng.chance(1, 5),
    };
    let runs = rng.range(2, 6) as usize;
    let dot_no_suffix = cfg.names.suffix.is_none() && cfg.fixed_contains_dot();

    let naming_label = match &cfg.names.naming {
        NamingK::Custom { fmt, current: None } => format!("CustomDirect({fmt})"),
        n => n.label().to_string(),
    };
    let shape_base = format!(
        "{}|{}|{}|{}|{}|tz{}{}",
        if cfg.l2 { "L2" } else { "L1" },
        cfg.names.naming.label(),
        crit.map(|c| c.label()).unwrap_or_else(|| "-".into()),
        cfg.clean.label(),
        cfg.wmode.label(),
        tz_offset / 60,
        if cfg.use_utc { "|utc" } else { "" },
    );
    let mut res = CaseResult::new(shape_base.clone());
    let t0 = flw::base_time_ns(rng);
    flw::install_virtual(t0);

    // the model never trims: with cleanup the observation must be a contiguous tail of it
    let mut hist = match Hist::start(cfg.clone()) {
        Ok(h) => h,
        Err(e) => {
            res.violate("build-failed", "C06/build-failed", e);
            flw::uninstall_virtual();
            return res;
        }
    };
    hist.model.no_trim = true;

    // name history: name -> (hash of decoded content, len, was current)
    let mut name_hist: HashMap<String, (u64, usize)> = HashMap::new();
    let mut script: Vec<String> = Vec::new();
    let mut same_second_restarts = 0u64;
    let mut gz_only_restarts = 0u64;
    let mut mutations = 0u64;
    let mut comparisons = 0u64;
    let mut total_rotations_seen = 0usize;
    let mut ok = true;

    'runs: for run in 0..runs {
        // facts of this run's start
        let run_append = hist.cfg.append;
        let start_now = hist.now();
        let same_second = hist
            .model
            .current
            .as_ref()
            .map(|c| c.started_ns / S == start_now / S)
            .unwrap_or(false);
        if run > 0 && same_second {
            same_second_restarts += 1;
        }
        // the file that is current when this run starts has a same-second sibling
        let restart_sibling = run > 0
            && hist.cfg.names.naming.is_direct()
            && match (
                &hist.model.current,
                hist.model.rotated.last(),
                hist.cfg.names.naming.ts_fmt(),
            ) {
                (Some(c), Some(r), Some(fmt)) => {
                    let f = |ns: i64| ctl::local_from_ns(ns).format(fmt).to_string();
                    f(c.started_ns) == f(r.started_ns)
                }
                _ => false,
            };
        let nops = rng.range(1, if ctx.thorough { 40 } else { 18 }) as usize;
        for _ in 0..nops {
            let op = match rng.below(10) {
                0..=5 => HOp::Write(*rng.pick(&LEVELS), rng.usize(40)),
                6 => HOp::Trigger,
                7 => HOp::Flush,
                _ => HOp::Advance(*rng.pick(&[0, 1_000_000, 300_000_000, S, 2 * S, 61 * S, 86_400 * S])),
            };
            script.push(format!("run{run}:{op:?}"));
            if let Err(e) = hist.apply(&op) {
                res.violate("op-error", "C06/op-error", format!("{op:?}: {e}"));
                ok = false;
                break 'runs;
            }
        }
        hist.shutdown();

        // ------------------------------------------------------------ observe after the run
        let obs = match hist.observe() {
            Ok(o) => o,
            Err(e) => {
                res.inconclusive(format!("cannot read directory: {e}"));
                ok = false;
                break;
            }
        };
        comparisons += 1;
        total_rotations_seen = total_rotations_seen.max(obs.family.len().saturating_sub(1));
        let mut facts = format!(
            "naming={naming_label}/{}{}/cleanup={}",
            if run_append { "append" } else { "no-append" },
            if run > 0 && same_second { "/same-second" } else { "" },
            cfg.clean.label(),
        );
        if restart_sibling {
            facts.push_str("/current-has-restart-sibling");
        }
        if dot_no_suffix {
            facts.push_str("/dot-in-name+no-suffix");
        }
        if cfg.use_utc && tz_offset != 0 {
            facts.push_str("/use_utc+tz-offset");
        }
        if !obs.foreign.is_empty() {
            res.violate(
                "foreign-file-created",
                format!("C06/foreign-file-created/{facts}"),
                format!("after run {run}: {:?} (family {:?})", obs.foreign, obs.names()),
            );
            ok = false;
            break;
        }
        let verdict: Result<(), (String, String)> = if cfg.clean == Clean::Never {
            flw::compare_partition(&hist.cfg, &hist.model, &obs, false, false)
        } else {
            flw::survivor_check(&hist.cfg, &hist.model, &obs, false)
        };
        if let Err((kind, detail)) = verdict {
            res.violate(
                "earlier-records-damaged",
                format!("C06/{kind}/{facts}"),
                format!("after run {run} (append={run_append}): {detail}"),
            );
            ok = false;
            break;
        }
        // name → content history: a name seen before may keep its content, grow, disappear, or
        // be replaced by name.gz with the same decoded bytes
        let mut now_names: HashMap<String, (u64, usize, Vec<u8>)> = HashMap::new();
        for f in &obs.family {
            // the name of an rCURRENT-style current file is legitimately re-used after a rotation
            if matches!(f.entry.kind, Kind::Current) {
                continue;
            }
            if let Ok(c) = &f.content {
                let base = f.entry.name.trim_end_matches(".gz").to_string();
                now_names.insert(base, (fnv(c), c.len(), c.clone()));
            }
        }
        for (name, (h_old, len_old)) in &name_hist {
            if let Some((h_new, len_new, content)) = now_names.get(name) {
                let extends = *len_new >= *len_old && fnv(&content[..*len_old]) == *h_old;
                let truncation_documented = hist.cfg.crit.is_none() && !run_append;
                if !(h_new == h_old && len_new == len_old) && !extends && !truncation_documented {
                    res.violate(
                        "name-reused",
                        format!("C06/name-reused/{facts}"),
                        format!(
                            "after run {run}: file name {name} now holds content that does not extend what it held before ({len_old} -> {len_new} bytes)"
                        ),
                    );
                    ok = false;
                    break 'runs;
                }
            }
        }
        for (name, (h, len, _)) in now_names {
            name_hist.insert(name, (h, len));
        }
        res.count("files_compared", obs.family.len() as u64);

        if run + 1 == runs {
            break;
        }
        // ------------------------------------------------------------ between the runs
        let adv = *rng.pick(&[0i64, 0, 200_000_000, S, 5 * S, 3600 * S, 86_400 * S]);
        ctl::clock_advance(adv);
        script.push(format!("between: advance {adv}"));
        if rng.chance(1, 4) {
            // put the directory into a state a previous run can leave
            match rng.below(3) {
                0 => {
                    // current file missing
                    if let Some(last) = obs.family.last() {
                        let is_current = match (&last.entry.kind, cfg.names.naming.is_direct()) {
                            (Kind::Current | Kind::Plain, _) => true,
                            (_, true) => true,
                            _ => false,
                        };
                        // with a direct naming and a cleanup strategy the next-newest file may
                        // be compressed or gone: what "the current file" then is, is not defined
                        let defined = !cfg.names.naming.is_direct() || cfg.clean == Clean::Never;
                        if is_current && hist.model.current.is_some() && defined {
                            let p = cfg.names.dir.join(&last.entry.name);
                            let _ = std::fs::remove_file(&p);
                            ctl::creation_forget(&p);
                            name_hist.remove(last.entry.name.trim_end_matches(".gz"));
                            if cfg.names.naming.is_direct() {
                                // the next-newest file becomes the one a direct naming continues
                                hist.model.current = hist.model.rotated.pop();
                            } else {
                                hist.model.current = None;
                            }
                            mutations += 1;
                            script.push(format!("between: removed current {}", last.entry.name));
                        }
                    }
                }
                1 => {
                    // a gap: remove one rotated file that is not the newest rotated one
                    // (only when the observation is in step with the model)
                    let nrot = hist.model.rotated.len();
                    if cfg.clean == Clean::Never && nrot >= 3 && obs.family.len() == exp_len(&hist) {
                        let idx = rng.usize(nrot - 1);
                        let victim = &obs.family[idx];
                        let p = cfg.names.dir.join(&victim.entry.name);
                        let _ = std::fs::remove_file(&p);
                        ctl::creation_forget(&p);
                        name_hist.remove(victim.entry.name.trim_end_matches(".gz"));
                        hist.model.rotated.remove(idx);
                        mutations += 1;
                        script.push(format!("between: removed rotated {}", victim.entry.name));
                    }
                }
                _ => {}
            }
        }
        if obs.family.iter().filter(|f| !matches!(f.entry.kind, Kind::Current)).count() > 0
            && obs
                .family
                .iter()
                .filter(|f| !matches!(f.entry.kind, Kind::Current))
                .all(|f| f.entry.gz)
        {
            gz_only_restarts += 1;
        }
        let append = rng.chance(1, 2);
        script.push(format!("restart append={append}"));
        if let Err(e) = hist.apply(&HOp::Restart { append }) {
            res.violate(
                "restart-failed",
                format!("C06/restart-failed/naming={naming_label}"),
                format!("run {}: {e}", run + 1),
            );
            ok = false;
            break;
        }
    }
    if !ok {
        hist.shutdown();
    }
    res.absorb_panics("C06", "restart history");
    flw::uninstall_virtual();

    res.count("runs", hist.restarts + 1);
    res.count("records", hist.records);
    res.count("comparisons", comparisons);
    res.count("same_second_restarts", same_second_restarts);
    res.count("restarts_with_only_compressed_rotated_files", gz_only_restarts);
    res.count("directory_mutations_between_runs", mutations);
    res.count("documented_truncations", hist.model.truncations);
    res.nontrivial = hist.restarts >= 1 && hist.records >= 2 && comparisons >= 2;
    res.shape = format!(
        "{shape_base}|{}|{}|{}",
        if same_second_restarts > 0 { "same-sec" } else { "-" },
        if mutations > 0 { "mutated" } else { "-" },
        match total_rotations_seen {
            0 => "r0",
            1..=3 => "r1-3",
            _ => "r4+",
        }
    );
    if ctx.case < 2 || res.verdict != Verdict::Held {
        res.sample = Some(json!({
            "config": cfg.to_json(),
            "t0": ctl::local_from_ns(t0).to_rfc3339(),
            "script": script.iter().take(80).collect::<Vec<_>>(),
            "script_len": script.len(),
        }));
    }
    res
}

fn exp_len(hist: &Hist) -> usize {
    hist.model.contents().len()
}

