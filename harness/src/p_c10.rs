//! C10 — logging operations never panic or hang, whatever the input or directory content.
//! Oracle: panic hook + catch_unwind around every API call + abnormal child exit + progress
//! watchdog (children) + presence of a sentinel record logged after the hostile step.

use crate::child::{self, ChildArgs};
use crate::ctl;
use crate::family::{self, NameCfg, NamingK};
use crate::flw::{self, Clean, Crit, Driver, FlwCfg, FmtK, WMode};
use crate::rng::Rng;
use crate::spec::{self, RecWriter, Recorder};
use crate::util::{self, CaseCtx, CaseResult, Verdict, LEVELS};
use flexi_logger::writers::{FileLogWriter, SyslogConnection, SyslogFacility, SyslogLineHeader, SyslogWriter};
use flexi_logger::{FileSpec, LogSpecification, LogfileSelector, Logger};
use log::LevelFilter;
use serde_json::json;
use std::panic::{catch_unwind, AssertUnwindSafe};

pub const HOSTILE_TARGETS: &[&str] = &[
    "{",
    "}",
    "{}",
    "}{",
    "{\u{e9}",
    "\u{e9}}",
    "{\u{e9}}",
    "{A,",
    "{,A}",
    "{A,,B}",
    "{A}x",
    "{{A}}",
    "{ A }",
    "{_Default",
    "{_Default,}",
    "",
    " ",
    "{\u{1F600}",
    "{A,\u{20ac}}",
    "a::b::{",
    "{A,A,A}",
    "{\n}",
    "{\0}",
];

fn hostile_msg(rng: &mut Rng) -> String {
    crate::p_c20::gen_msg(rng, true)
}

/// runs `f` under catch_unwind and turns a panic from repository code into a violation
fn guarded<R>(res: &mut CaseResult, what: &str, f: impl FnOnce() -> R) -> Option<R> {
    let r = catch_unwind(AssertUnwindSafe(f));
    let panics = util::take_panics();
    for p in &panics {
        if util::in_repo_file(&p.file) {
            res.violate(
                "panic",
                format!(
                    "C10/panic/{}/{}",
                    util::repo_rel(&p.file),
                    util::normalise_msg(&p.message)
                ),
                format!("{what}: panic in thread {} at {}: {}", p.thread, p.location, p.message),
            );
        } else {
            res.inconclusive(format!("harness panic at {}: {}", p.location, p.message));
        }
    }
    r.ok()
}

pub fn run_case(ctx: &mut CaseCtx) -> CaseResult {
    // zones with daylight-saving time: histories in the repeated hour, files stamped with a
    // skipped hour (child process; the scenario of C06's DST children, here for "no panic")
    if ctx.case % 32 == 13 {
        return crate::p_c06::dst_case_for(ctx, "C10");
    }
    match ctx.case % 8 {
        0 | 1 => targets_case(ctx),
        2 | 3 | 4 => filespec_case(ctx),
        5 => directory_case(ctx),
        6 => spec_case(ctx),
        _ => recursion_child_case(ctx),
    }
}

// ------------------------------------------------------------------------------------------
// K0: hostile targets / records through a logger with additional writers

fn targets_case(ctx: &mut CaseCtx) -> CaseResult {
    let rng = &mut ctx.rng;
    let mut res = CaseResult::new("targets");
    let sink = Recorder::default();
    let a = Recorder::default();
    let with_writers = rng.chance(3, 4);
    let primary = rng.below(4);
    // the memory buffer keeps the newest lines up to a byte limit; limits below, around and
    // above the line lengths
    let buffer_limit = *rng.pick(&[0usize, 1, 16, 64, 200, 10_000]);
    let mut lg = Logger::with(LogSpecification::trace()).error_channel(flw::error_channel());
    lg = match primary {
        3 => lg.log_to_buffer(buffer_limit, Some(flw::fmt_raw)),
        0 => lg.log_to_writer(Box::new(RecWriter {
            rec: sink.clone(),
            ceiling: LevelFilter::Trace,
            honour_ceiling: false,
        })),
        1 => lg
            .log_to_file(
                FileSpec::default()
                    .directory(ctx.dir.join("t"))
                    .basename("t")
                    .suppress_timestamp(),
            )
            .format(flw::fmt_raw),
        _ => lg.do_not_log(),
    };
    if with_writers {
        lg = lg.add_writer(
            "A",
            Box::new(RecWriter {
                rec: a.clone(),
                ceiling: *rng.pick(&spec::FILTERS),
                honour_ceiling: true,
            }),
        );
        if rng.chance(1, 2) {
            if let Ok(w) = FileLogWriter::builder(
                FileSpec::default()
                    .directory(ctx.dir.join("b"))
                    .basename("b")
                    .suppress_timestamp(),
            )
            .try_build()
            {
                lg = lg.add_writer("B", Box::new(w));
            }
        }
    }
    let built = guarded(&mut res, "Logger::build", || lg.build());
    let Some(Ok((boxed, handle))) = built else {
        if res.verdict == Verdict::Held {
            res.violate("build-failed", "C10/build-failed/targets", "Logger::build failed");
        }
        return res;
    };
    let boxed: std::sync::Arc<Box<dyn log::Log>> = std::sync::Arc::new(boxed);
    let n = rng.range(5, 40);
    let mut calls = 0u64;
    for _ in 0..n {
        let target = if rng.chance(3, 4) {
            (*rng.pick(HOSTILE_TARGETS)).to_string()
        } else {
            // random brace soup with multi-byte characters
            let atoms = ["{", "}", ",", "A", "B", "_Default", "\u{e9}", " ", "\u{1F600}", "x"];
            (0..rng.range(0, 6)).map(|_| *rng.pick(&atoms)).collect::<String>()
        };
        let lvl = *rng.pick(&LEVELS);
        let msg = hostile_msg(rng);
        let with_module = rng.chance(2, 3);
        let with_loc = rng.chance(2, 3);
        let what = format!("log(target={target:?}, level={lvl})");
        calls += 2;
        guarded(&mut res, &format!("enabled() for {what}"), || {
            let meta = log::Metadata::builder().level(lvl).target(&target).build();
            boxed.enabled(&meta)
        });
        guarded(&mut res, &what, || {
            let rec_msg = &msg;
            boxed.log(
                &log::Record::builder()
                    .args(format_args!("{rec_msg}"))
                    .level(lvl)
                    .target(&target)
                    .module_path(if with_module { Some("flmon::c10") } else { None })
                    .file(if with_loc { Some("src/x.rs") } else { None })
                    .line(if with_loc { Some(1) } else { None })
                    .build(),
            );
        });
        if res.verdict != Verdict::Held {
            break;
        }
    }
    if primary == 3 && res.verdict == Verdict::Held {
        // lines shorter and longer than the limit in turn, on a thread of their own: a log call
        // that does not come back is a hang, not something to wait for
        let lens: Vec<usize> = (0..rng.range(3, 12))
            .map(|_| match rng.below(4) {
                0 => buffer_limit + 1 + rng.usize(40),
                1 => buffer_limit.saturating_sub(rng.usize(8)),
                _ => rng.usize(buffer_limit.min(60) + 2),
            })
            .collect();
        let (tx, rx) = std::sync::mpsc::channel::<usize>();
        let lens2 = lens.clone();
        let vt = std::sync::Arc::clone(&boxed);
        let worker = std::thread::Builder::new()
            .name("flmon-case-buffer".into())
            .spawn(move || {
                for (i, l) in lens2.iter().enumerate() {
                    let m = "b".repeat(*l);
                    flw::with_record(log::Level::Info, "flmon::buf", &m, |r| vt.log(r));
                    let _ = tx.send(i);
                }
            })
            .expect("spawn");
        let mut done = 0usize;
        let mut hung = false;
        while done < lens.len() {
            match rx.recv_timeout(std::time::Duration::from_secs(10)) {
                Ok(_) => done += 1,
                Err(_) => {
                    // generous second chance before the verdict
                    match rx.recv_timeout(std::time::Duration::from_secs(30)) {
                        Ok(_) => done += 1,
                        Err(_) => {
                            hung = true;
                            break;
                        }
                    }
                }
            }
        }
        calls += done as u64;
        if hung {
            res.violate(
                "hang",
                "C10/hang/buffer-writer/log-call",
                format!(
                    "memory buffer with limit {buffer_limit}: line lengths {lens:?}; the log call of line {done} did not return within 40 s"
                ),
            );
            // the stuck thread keeps its references: leak them on purpose
            std::mem::forget(worker);
            std::mem::forget(handle);
            res.nontrivial = true;
            res.shape = "targets|primary3|hang".into();
            return res;
        }
        let _ = worker.join();
        let panics = util::take_panics();
        if let Some(p) = panics.iter().find(|p| util::in_repo_file(&p.file)) {
            res.violate(
                "panic",
                format!("C10/panic/{}/{}", util::repo_rel(&p.file), util::normalise_msg(&p.message)),
                format!("memory buffer with limit {buffer_limit}, line lengths {lens:?}: panic at {}: {}", p.location, p.message),
            );
        }
    }
    // logging continues: a sentinel through the default channel
    let sentinel = flw::msg_id(ctx.case, 9, 0, 8);
    guarded(&mut res, "sentinel log call", || {
        flw::with_record(log::Level::Error, "flmon::sentinel", &sentinel, |r| boxed.log(r));
    });
    guarded(&mut res, "flush", || handle.flush());
    let mut snapshot = flexi_logger::Snapshot::new();
    if primary == 3 {
        guarded(&mut res, "update_snapshot", || {
            let _ = handle.update_snapshot(&mut snapshot);
        });
    }
    guarded(&mut res, "shutdown", || handle.shutdown());
    if res.verdict == Verdict::Held {
        let found = match primary {
            // the newest line is always kept, whatever the limit
            3 => snapshot.text.contains(&sentinel),
            0 => sink.take().iter().any(|r| r.msg == sentinel),
            1 => std::fs::read_to_string(ctx.dir.join("t").join("t.log"))
                .unwrap_or_default()
                .contains(&sentinel),
            _ => true,
        };
        if !found {
            res.violate(
                "logging-did-not-continue",
                "C10/logging-did-not-continue/targets",
                "the sentinel record logged after the hostile records is missing",
            );
        }
    }
    drop(handle);
    drop(boxed);
    res.count("api_calls", calls);
    res.nontrivial = calls > 0;
    res.shape = format!(
        "targets|primary{primary}|{}",
        if with_writers { "writers" } else { "nowriters" }
    );
    res
}

// ------------------------------------------------------------------------------------------
// K2: hostile FileSpec parts, namings, custom formats, pre-populated directories, restarts,
// every handle operation

const ODD_FMTS: &[&str] = &[
    "%Y",
    "%Y-%m",
    "r%Y-%m-%d",
    "%Y%m%dT%H%M%S",
    "%Y-%m-%d_%H-%M-%S",
    "r%Y-%m-%d_%H-%M-%S",
    "%s",
    "%Y-%m-%dT%H:%M:%S",
    "%Y-%m-%d %H",
    "%d.%m.%Y",
    "%Y_%j",
    "%H-%M-%S",
    "%A_%Y-%m-%d",
    "long_prefix_that_goes_on_%Y-%m-%d_%H-%M-%S_and_on",
    "%y%m%d",
];

fn filespec_case(ctx: &mut CaseCtx) -> CaseResult {
    let rng = &mut ctx.rng;
    let mut res = CaseResult::new("filespec");
    let basename = (*rng.pick(&[
        "", "x", "a.b", ".hidden", "caf\u{e9}", "\u{1F600}", "with space", "trail.", "-", "_", "r00001", "rCURRENT", "a_r",
    ]))
    .to_string();
    let discr = match rng.below(5) {
        0 => Some("".to_string()),
        1 => Some("\u{e9}".to_string()),
        2 => Some("d.e".to_string()),
        3 => Some("_".to_string()),
        _ => None,
    };
    let suffix = match rng.below(7) {
        0 => None,
        // (not generated: the empty string as suffix — `o_suffix(None)` is the documented way to
        // have no suffix; a trailing dot makes Path::extension() an empty string)
        1 => Some("t".to_string()),
        // (not generated: "gz" and "restart-NNNN" — the crate's own reserved extensions, a family
        // using them as suffix is ambiguous by the documented naming)
        2 => Some("g".to_string()),
        3 => Some("l\u{f6}g".to_string()),
        4 => Some("a.b".to_string()),
        5 => Some("restart".to_string()),
        _ => Some("log".to_string()),
    };
    let naming = match rng.below(8) {
        0 => NamingK::NoRotation,
        1 => NamingK::Numbers,
        2 => NamingK::NumbersDirect,
        3 => NamingK::Timestamps,
        4 => NamingK::TimestampsDirect,
        5 => NamingK::Custom {
            fmt: (*rng.pick(ODD_FMTS)).to_string(),
            current: Some((*rng.pick(&["rCURRENT", "", "c", "\u{e9}"])).to_string()),
        },
        _ => NamingK::Custom {
            fmt: (*rng.pick(ODD_FMTS)).to_string(),
            current: None,
        },
    };
    let rotation = naming != NamingK::NoRotation;
    // without rotation there is no infix: an empty fixed part would mean an empty file name
    let basename = if !rotation && basename.is_empty() && discr.as_deref().map_or(true, str::is_empty) {
        "solo".to_string()
    } else {
        basename
    };
    let dir = ctx.dir.join("logs");
    let names = NameCfg {
        dir: dir.clone(),
        basename: basename.clone(),
        discr: discr.clone(),
        start_ts: None,
        suffix: suffix.clone(),
        naming: naming.clone(),
    };
    let wmode = match rng.below(4) {
        0 => WMode::BufDont(64),
        1 => WMode::Async {
            pool: 2,
            msg: 16,
            flush_ms: 0,
        },
        _ => WMode::Direct,
    };
    let mut cfg = FlwCfg {
        names,
        use_ts: rng.chance(1, 5),
        crit: if rotation {
            Some(match rng.below(3) {
                0 => Crit::Age(flw::AgeK::Second),
                _ => Crit::Size(*rng.pick(&[0u64, 20, 200])),
            })
        } else {
            None
        },
        clean: if rotation {
            match rng.below(4) {
                0 => Clean::Logs(rng.usize(3)),
                1 => Clean::Gz(rng.usize(3)),
                2 => Clean::Both(rng.usize(2), rng.usize(2)),
                _ => Clean::Never,
            }
        } else {
            Clean::Never
        },
        clean_bg: rng.chance(1, 3),
        wmode,
        crlf: false,
        append: rng.chance(1, 2),
        symlink: if rng.chance(1, 4) { Some(ctx.dir.join("lnk")) } else { None },
        use_utc: false,
        max_level: LevelFilter::Trace,
        fmt: FmtK::Raw,
        l2: rng.chance(1, 2),
    };
    res.shape = format!(
        "filespec|{}|{}|{}|{}",
        if cfg.l2 { "L2" } else { "L1" },
        cfg.names.naming.label(),
        cfg.clean.label(),
        cfg.wmode.label()
    );
    // pre-populate the directory with names sharing a prefix with the family
    let _ = std::fs::create_dir_all(&dir);
    let fixed = cfg.names.fixed();
    let sfx = suffix.clone().map(|s| format!(".{s}")).unwrap_or_default();
    let junk: Vec<String> = vec![
        format!("{fixed}"),
        format!("{fixed}_"),
        format!("{fixed}_r"),
        format!("{fixed}_r{sfx}"),
        format!("{fixed}\u{e9}{sfx}"),
        format!("{fixed}_\u{1F600}{sfx}"),
        format!("{fixed}_r00001{sfx}.gz"),
        // (not planted: r99999 — the next index would need six digits, "> 99 999 rotated files"
        // is excluded in DESIGN §7)
        format!("{fixed}_r00042{sfx}"),
        // (not planted: indexes >= 2^32 - beyond the > 99 999 rotated files excluded in DESIGN §7)
        format!("{fixed}_rCURRENT{sfx}"),
        format!("{fixed}_r2021-03-14_09-26-53{sfx}"),
        format!("{fixed}_r2021-03-14_09-26-53.restart-9999{sfx}"),
        format!("{fixed}_r2021-03-14_09-26-53.restart-{sfx}"),
        format!("{fixed}_r2021-03-14_09-26-53.restart-00{sfx}"),
        format!("{fixed}_r2021-02-30_25-61-61{sfx}"),
        format!("{fixed}_2021{sfx}"),
        format!("{fixed}_9999-99-99{sfx}"),
        format!("{fixed}.gz"),
        format!("{fixed}_r00002{sfx}.d"),
    ];
    let t0 = flw::base_time_ns(rng);
    flw::install_virtual(t0);
    ctl::with_ctl(|c| c.tracing = true);
    let mut planted = 0u64;
    for j in &junk {
        if j.is_empty() || j.contains('/') || !rng.chance(1, 3) {
            continue;
        }
        let p = dir.join(j);
        if j.ends_with(".d") {
            let _ = std::fs::create_dir_all(&p);
        } else if !p.exists() {
            let _ = std::fs::write(&p, b"junk\n");
        }
        planted += 1;
    }
    // things that are not files but are called like rotated log files of long ago: a FIFO (opening
    // it would block for ever), a dangling link, a link to a FIFO
    if rng.chance(1, 4) {
        let old_infixes = ["r00500", "r2001-01-01_00-00-00", "r2001-01-01_00-00-00.restart-0000"];
        let join = |i: &str| if fixed.is_empty() { i.to_string() } else { format!("{fixed}_{i}") };
        for i in old_infixes {
            let p = dir.join(format!("{}{sfx}", join(i)));
            if p.symlink_metadata().is_ok() {
                continue;
            }
            match rng.below(3) {
                0 => {
                    if let Ok(c) = std::ffi::CString::new(p.to_string_lossy().as_bytes()) {
                        unsafe { libc::mkfifo(c.as_ptr(), 0o644) };
                    }
                }
                1 => {
                    let _ = std::os::unix::fs::symlink(dir.join("no_such_file_anywhere"), &p);
                }
                _ => {
                    let f = dir.join("a_fifo_elsewhere");
                    if let Ok(c) = std::ffi::CString::new(f.to_string_lossy().as_bytes()) {
                        unsafe { libc::mkfifo(c.as_ptr(), 0o644) };
                    }
                    let _ = std::os::unix::fs::symlink(&f, &p);
                }
            }
            planted += 1;
            res.count("special_files_planted", 1);
        }
    }
    let mut calls = 0u64;
    let runs = rng.range(1, 3);
    let mut sentinel_expected: Option<String> = None;
    let mut script: Vec<String> = Vec::new();
    'runs: for run in 0..runs {
        cfg.append = rng.chance(1, 2);
        let built = guarded(&mut res, "build", || Driver::build(&cfg));
        calls += 1;
        let mut driver = match built {
            Some(Ok(d)) => d,
            Some(Err(_)) => {
                // an error result at configuration time is fine
                res.count("configuration_errors", 1);
                break;
            }
            None => break,
        };
        let nops = rng.range(3, 25);
        for _ in 0..nops {
            calls += 1;
            let k = rng.below(12);
            script.push(format!("run{run}:op{k}"));
            let what;
            match k {
                0..=4 => {
                    let m = hostile_msg(rng);
                    what = format!("write({:?}…)", m.chars().take(20).collect::<String>());
                    let l = *rng.pick(&LEVELS);
                    guarded(&mut res, &what, || driver.write(l, &m));
                }
                5 => {
                    guarded(&mut res, "trigger_rotation", || {
                        let _ = driver.rotate();
                    });
                }
                6 => {
                    guarded(&mut res, "flush", || driver.flush());
                }
                7 => {
                    let sel = match rng.below(5) {
                        0 => LogfileSelector::default(),
                        1 => LogfileSelector::none(),
                        2 => LogfileSelector::default().with_compressed_files().with_r_current(),
                        3 => LogfileSelector::none().with_custom_current("\u{e9}"),
                        _ => LogfileSelector::default().with_custom_current(""),
                    };
                    guarded(&mut res, "existing_log_files", || {
                        let _ = driver.existing_log_files(&sel);
                    });
                }
                8 => {
                    guarded(&mut res, "reopen_output", || {
                        let _ = driver.reopen();
                    });
                }
                9 => {
                    ctl::clock_advance(*rng.pick(&[1_000_000_000i64, 61_000_000_000, 86_400_000_000_000]));
                }
                10 => {
                    let mut c2 = cfg.clone();
                    c2.names.basename = format!("{}2", cfg.names.basename);
                    guarded(&mut res, "reset_flw", || {
                        let _ = driver.reset(&c2);
                    });
                    // (the logger stays on the other family; the sentinel is searched in the whole
                    // directory. Resetting straight back to a family whose detached background
                    // cleanup thread may still be running is not part of the explored space.)
                }
                _ => {
                    // plant another junk file while running — only names outside the family:
                    // the property quantifies over *pre-existing* directory content; a file with
                    // a valid (higher) index appearing while the logger runs is another logger
                    // on the same family, not directory content
                    if let Some(j) = junk.get(rng.usize(junk.len())) {
                        if !j.is_empty() && !j.ends_with(".d") && cfg.names.classify(j).is_none() {
                            let p = dir.join(j);
                            if !p.exists() {
                                let _ = std::fs::write(&p, b"junk\n");
                            }
                        }
                    }
                }
            }
            if res.verdict != Verdict::Held {
                break 'runs;
            }
        }
        let sentinel = flw::msg_id(ctx.case, 9, run as u64, 8);
        guarded(&mut res, "sentinel write", || driver.write(log::Level::Error, &sentinel));
        guarded(&mut res, "shutdown", || driver.shutdown());
        sentinel_expected = Some(sentinel);
        if res.verdict != Verdict::Held {
            break;
        }
    }
    let fs_trace: Vec<String> = ctl::with_ctl(|c| {
        c.trace
            .iter()
            .filter(|e| ctl::is_fs_point(&e.name) && e.name != "read_dir")
            .map(|e| {
                format!(
                    "{}[{}] {}",
                    e.name,
                    e.thread.chars().rev().take(8).collect::<String>().chars().rev().collect::<String>(),
                    e.p1.as_ref()
                        .and_then(|p| p.file_name())
                        .map(|n| n.to_string_lossy().to_string())
                        .unwrap_or_default()
                )
            })
            .collect()
    });
    flw::uninstall_virtual();
    // formats that chrono cannot parse back (or that contain a dot) are documented as unsuitable:
    // for them only "no panic" is asserted, not where the records end up
    let suitable = match cfg.names.naming.ts_fmt() {
        None => true,
        Some(f) => {
            let probe = ctl::local_from_ns(t0).format(f).to_string();
            // lexical order of the names must be the chronological one (no weekday names etc.)
            let chain: Vec<String> = [0i64, 1, 2, 3, 4, 5, 6, 7, 40, 400]
                .iter()
                .map(|d| (ctl::local_from_ns(t0) + chrono::Duration::days(*d)).format(f).to_string())
                .collect();
            let increasing = chain.windows(2).all(|w| w[0] < w[1]);
            let later = if increasing { "\u{10FFFF}".to_string() } else { String::new() };
            // (%s has no fixed width, so its lexical order is not chronological in general)
            !f.contains('.')
                && !f.contains("%s")
                && family::parse_ts(&probe, f).is_some()
                && probe < later
        }
    };
    // a configuration whose current file would have the empty name (no fixed part, empty current
    // infix, no suffix) denotes the directory itself: nothing can be written, only "no panic"
    let empty_current_name = cfg
        .names
        .naming
        .current_infix()
        .is_some_and(|c| cfg.names.compose(c).is_empty());
    if empty_current_name {
        res.count("cases_with_empty_current_file_name", 1);
    }
    let suitable = suitable && !empty_current_name;
    if !suitable {
        res.count("cases_with_unsuitable_timestamp_format", 1);
    }
    // logging continued: the last sentinel is in some file of the directory
    if let (Verdict::Held, Some(s), true) = (&res.verdict, &sentinel_expected, suitable) {
        let mut found = false;
        if let Ok(rd) = std::fs::read_dir(&dir) {
            for e in rd.flatten() {
                let p = e.path();
                if p.is_file() {
                    let raw = std::fs::read(&p).unwrap_or_default();
                    let data = if p.extension().map(|x| x == "gz").unwrap_or(false) {
                        family::gunzip(&raw).unwrap_or(raw)
                    } else {
                        raw
                    };
                    if String::from_utf8_lossy(&data).contains(s.as_str()) {
                        found = true;
                        break;
                    }
                }
            }
        }
        // with a cleanup limit of 0 and a direct naming the sentinel may legitimately be gone
        // only if its file was removed by the configured limit; the current file is never removed
        if !found {
            res.violate(
                "logging-did-not-continue",
                format!(
                    "C10/logging-did-not-continue/filespec/naming={}",
                    cfg.names.naming.label()
                ),
                format!(
                    "the sentinel written last is in no file of {:?}",
                    std::fs::read_dir(&dir).map(|rd| rd
                        .flatten()
                        .map(|e| e.file_name().to_string_lossy().to_string())
                        .collect::<Vec<_>>())
                ),
            );
        }
    }
    res.count("api_calls", calls);
    res.count("junk_files_planted", planted);
    res.nontrivial = calls > 1;
    if ctx.case < 8 || res.verdict != Verdict::Held {
        res.sample = Some(json!({"config": cfg.to_json(), "junk": junk.iter().take(8).collect::<Vec<_>>(), "script": script,
            "fs_trace_tail": fs_trace.iter().rev().take(40).rev().collect::<Vec<_>>()}));
    }
    res
}

// ------------------------------------------------------------------------------------------
// K3: the log directory is removed and re-created while the logger is running

fn directory_case(ctx: &mut CaseCtx) -> CaseResult {
    let rng = &mut ctx.rng;
    let mut res = CaseResult::new("directory");
    let naming = flw::gen_naming(rng, true);
    let dir = ctx.dir.join("logs");
    let (mut names, _) = flw::gen_name_parts(rng, &dir, naming, false);
    if names.fixed().is_empty() {
        names.basename = "d".into();
    }
    let cfg = FlwCfg {
        names,
        use_ts: false,
        crit: Some(Crit::Size(*rng.pick(&[0u64, 50]))),
        clean: match rng.below(3) {
            0 => Clean::Logs(2),
            1 => Clean::Gz(1),
            _ => Clean::Never,
        },
        clean_bg: rng.chance(1, 2),
        wmode: if rng.chance(1, 3) { WMode::BufDont(32) } else { WMode::Direct },
        crlf: false,
        append: rng.chance(1, 2),
        symlink: None,
        use_utc: false,
        max_level: LevelFilter::Trace,
        fmt: FmtK::Raw,
        l2: rng.chance(1, 2),
    };
    res.shape = format!(
        "directory|{}|{}|{}",
        cfg.names.naming.label(),
        cfg.clean.label(),
        if cfg.l2 { "L2" } else { "L1" }
    );
    flw::install_virtual(flw::base_time_ns(rng));
    let Some(Ok(mut driver)) = guarded(&mut res, "build", || Driver::build(&cfg)) else {
        flw::uninstall_virtual();
        return res;
    };
    let mut calls = 0u64;
    let mut seq = 0u64;
    let mut step = |res: &mut CaseResult, driver: &Driver, rng: &mut Rng, n: u64| {
        for _ in 0..n {
            calls += 1;
            match rng.below(6) {
                0 => {
                    guarded(res, "trigger_rotation (directory removed)", || {
                        let _ = driver.rotate();
                    });
                }
                1 => {
                    guarded(res, "existing_log_files (directory removed)", || {
                        let _ = driver.existing_log_files(&LogfileSelector::default().with_r_current());
                    });
                }
                2 => {
                    guarded(res, "flush", || driver.flush());
                }
                _ => {
                    let m = flw::msg_id(0, 0, seq, 20);
                    seq += 1;
                    guarded(res, "write (directory removed)", || driver.write(log::Level::Info, &m));
                }
            }
        }
    };
    step(&mut res, &driver, rng, 6);
    let _ = std::fs::remove_dir_all(&dir);
    step(&mut res, &driver, rng, 10);
    let _ = std::fs::create_dir_all(&dir);
    step(&mut res, &driver, rng, 6);
    // once the directory exists again, a rotation must bring the logger back to a real file
    guarded(&mut res, "trigger_rotation (directory back)", || {
        let _ = driver.rotate();
    });
    let sentinel = flw::msg_id(ctx.case, 9, 0, 8);
    guarded(&mut res, "sentinel write", || driver.write(log::Level::Error, &sentinel));
    guarded(&mut res, "shutdown", || driver.shutdown());
    flw::uninstall_virtual();
    // With a background cleanup thread the directory is removed and re-created under the feet of
    // a cleanup that may be in the middle of its work list: the file names of the frozen virtual
    // second are re-used in the new directory, and a deletion decided for the old namesake can hit
    // the new file. Where the sentinel ends up is then not asserted (no panic / no hang is).
    let sentinel_must_be_there = !cfg.clean_bg || cfg.clean == Clean::Never;
    if !sentinel_must_be_there {
        res.count("directory_cases_without_sentinel_rule", 1);
    }
    if res.verdict == Verdict::Held && sentinel_must_be_there {
        let mut found = false;
        if let Ok(rd) = std::fs::read_dir(&dir) {
            for e in rd.flatten() {
                let raw = std::fs::read(e.path()).unwrap_or_default();
                let data = if e.path().extension().is_some_and(|x| x == "gz") {
                    family::gunzip(&raw).unwrap_or(raw)
                } else {
                    raw
                };
                if String::from_utf8_lossy(&data).contains(&sentinel) {
                    found = true;
                }
            }
        }
        if !found {
            res.violate(
                "logging-did-not-continue",
                format!(
                    "C10/logging-did-not-continue/directory-recreated/naming={}",
                    cfg.names.naming.label()
                ),
                "after the directory was re-created and a rotation triggered, the sentinel record is in no file",
            );
        }
    }
    res.count("api_calls", calls);
    res.nontrivial = true;
    if ctx.case < 8 || res.verdict != Verdict::Held {
        res.sample = Some(json!({"config": cfg.to_json()}));
    }
    res
}

// ------------------------------------------------------------------------------------------
// K1: hostile specification strings through the handle and the constructors

fn spec_case(ctx: &mut CaseCtx) -> CaseResult {
    let rng = &mut ctx.rng;
    let mut res = CaseResult::new("spec-strings");
    let sink = Recorder::default();
    let Some(Ok((boxed, mut handle))) = guarded(&mut res, "build", || {
        Logger::with(LogSpecification::info())
            .log_to_writer(Box::new(RecWriter {
                rec: sink.clone(),
                ceiling: LevelFilter::Trace,
                honour_ceiling: false,
            }))
            .error_channel(flw::error_channel())
            .build()
    }) else {
        return res;
    };
    let atoms = [
        "a", "info", "=", ",", "/", " ", "\t", "\n", "é", "{", "}", "[", "(", "*", "+", "?", "\\", "::", "0", "off",
        "=trace", "\u{1F600}", "\u{0}", "a=b=c",
    ];
    let mut calls = 0u64;
    for _ in 0..rng.range(5, 40) {
        let s: String = (0..rng.range(0, 10)).map(|_| *rng.pick(&atoms)).collect();
        calls += 3;
        guarded(&mut res, &format!("parse_new_spec({s:?})"), || {
            let _ = handle.parse_new_spec(&s);
        });
        guarded(&mut res, &format!("parse_and_push_temp_spec({s:?})"), || {
            let _ = handle.parse_and_push_temp_spec(&s);
        });
        guarded(&mut res, &format!("Logger::try_with_str({s:?})"), || {
            let _ = Logger::try_with_str(&s).map(|_| ());
        });
        // the other entry points for a temporary specification (with a parsed one, if there is)
        if let Ok(parsed) = LogSpecification::parse(&s) {
            calls += 2;
            guarded(&mut res, "push_temp_spec", || handle.push_temp_spec(parsed.clone()));
            guarded(&mut res, "set_new_spec", || handle.set_new_spec(parsed));
        }
        if rng.chance(1, 3) {
            guarded(&mut res, "pop_temp_spec", || handle.pop_temp_spec());
        }
        if res.verdict != Verdict::Held {
            break;
        }
    }
    guarded(&mut res, "set_new_spec(trace)", || handle.set_new_spec(LogSpecification::trace()));
    let sentinel = flw::msg_id(ctx.case, 9, 0, 8);
    guarded(&mut res, "sentinel", || {
        flw::with_record(log::Level::Error, "flmon::sentinel", &sentinel, |r| boxed.log(r));
    });
    if res.verdict == Verdict::Held && !sink.take().iter().any(|r| r.msg == sentinel) {
        res.violate(
            "logging-did-not-continue",
            "C10/logging-did-not-continue/spec-strings",
            "sentinel missing after hostile specification strings",
        );
    }
    drop(handle);
    drop(boxed);
    res.count("api_calls", calls);
    res.nontrivial = calls > 0;
    res
}

// ------------------------------------------------------------------------------------------
// K4: recursive logging from a Display implementation for each primary writer kind (child,
// global logger, real macros, watchdog)

const RECUR_KINDS: &[&str] = &[
    "file-direct",
    "file-buffered",
    "file-async",
    "stderr-direct",
    "stderr-buffered",
    "stderr-async",
    "stdout-capture",
    "buffer-writer",
    "syslog-additional",
    "file-additional",
    "writer",
];

/// recursion of any depth: the Display implementation logs a record whose argument logs again
struct Nest(u8);
impl std::fmt::Display for Nest {
    fn fmt(&self, f: &mut std::fmt::Formatter<'_>) -> std::fmt::Result {
        if self.0 > 0 {
            log::warn!(target: "flmon::nest", "nested record, {} to go: {}", self.0, Nest(self.0 - 1));
            if self.0 % 2 == 0 {
                log::error!(target: "{R,_Default}", "nested record to both: {}", Nest(self.0 - 1));
            }
        }
        write!(f, "nest-{}", self.0)
    }
}

struct Inner;
impl std::fmt::Display for Inner {
    fn fmt(&self, f: &mut std::fmt::Formatter<'_>) -> std::fmt::Result {
        log::warn!(target: "flmon::inner", "inner record");
        log::error!(target: "{R}", "inner record to additional writer");
        f.write_str("outer text")
    }
}

pub fn child_main(a: &ChildArgs) -> i32 {
    if a.role == "dst" {
        return crate::p_c06::child_main(a);
    }
    let kind = a.x("kind").unwrap_or("file-direct");
    let fs = FileSpec::default()
        .directory(a.dir.join("out"))
        .basename("recur")
        .suppress_timestamp();
    let mut lg = Logger::with(LogSpecification::trace())
        .format(flw::fmt_raw)
        .error_channel(flexi_logger::ErrorChannel::File(a.dir.join("errchan.txt")));
    let async_mode = flexi_logger::WriteMode::AsyncWith {
        pool_capa: 2,
        message_capa: 16,
        flush_interval: std::time::Duration::from_secs(0),
    };
    lg = match kind {
        "file-direct" => lg.log_to_file(fs),
        "file-buffered" => lg.log_to_file(fs).write_mode(flexi_logger::WriteMode::BufferDontFlush),
        "file-async" => lg.log_to_file(fs).write_mode(async_mode),
        "stderr-direct" => lg.log_to_stderr(),
        "stderr-buffered" => lg.log_to_stderr().write_mode(flexi_logger::WriteMode::BufferDontFlush),
        "stderr-async" => lg.log_to_stderr().write_mode(async_mode),
        "stdout-capture" => lg.log_to_stdout().write_mode(flexi_logger::WriteMode::SupportCapture),
        "buffer-writer" => lg.log_to_buffer(10_000, None),
        "writer" => lg.log_to_writer(Box::new(RecWriter {
            rec: Recorder::default(),
            ceiling: LevelFilter::Trace,
            honour_ceiling: false,
        })),
        _ => lg.log_to_file(fs),
    };
    // additional writer R: recording, syslog or file
    let sock = a.dir.join("s.sock");
    let _keep_socket;
    match kind {
        "syslog-additional" => {
            let _ = std::fs::remove_file(&sock);
            let s = std::os::unix::net::UnixDatagram::bind(&sock).ok();
            let w = SyslogConnection::try_datagram(&sock).ok().and_then(|c| {
                SyslogWriter::builder(c, SyslogLineHeader::Rfc3164, SyslogFacility::LocalUse0)
                    .max_log_level(LevelFilter::Trace)
                    .format(flw::fmt_raw)
                    .build()
                    .ok()
            });
            // the sink must be drained: a full datagram queue blocks the sender, which would look
            // like a hang of the log call
            if let Some(s) = &s {
                if let Ok(reader) = s.try_clone() {
                    std::thread::spawn(move || {
                        let mut b = vec![0u8; 65536];
                        while reader.recv(&mut b).is_ok() {}
                    });
                }
            }
            _keep_socket = s;
            if let Some(w) = w {
                lg = lg.add_writer("R", w);
            }
        }
        "file-additional" => {
            _keep_socket = None;
            if let Ok(w) = FileLogWriter::builder(
                FileSpec::default()
                    .directory(a.dir.join("add"))
                    .basename("add")
                    .suppress_timestamp(),
            )
            .try_build()
            {
                lg = lg.add_writer("R", Box::new(w));
            }
        }
        _ => {
            _keep_socket = None;
            lg = lg.add_writer(
                "R",
                Box::new(RecWriter {
                    rec: Recorder::default(),
                    ceiling: LevelFilter::Trace,
                    honour_ceiling: false,
                }),
            );
        }
    }
    let handle = match lg.start() {
        Ok(h) => h,
        Err(e) => {
            eprintln!("FLMON-CHILD start failed: {e:?}");
            return 3;
        }
    };
    // recursion through the default channel and through the additional writer
    log::info!(target: "flmon::outer", "{}", Inner);
    log::info!(target: "{R,_Default}", "{}", Inner);
    log::info!(target: "{R}", "{}", Inner);
    // deeper nesting: 3 or 4 levels
    let depth = 3 + (a.case / 8 / RECUR_KINDS.len() as u64 % 2) as u8;
    log::info!(target: "flmon::outer", "{}", Nest(depth));
    log::info!(target: "{R}", "{}", Nest(depth));
    log::info!(target: "flmon::sentinel", "SENTINEL-{}", a.case);
    handle.shutdown();
    let _ = std::fs::write(a.dir.join("done"), b"done");
    0
}

fn recursion_child_case(ctx: &mut CaseCtx) -> CaseResult {
    let kind = RECUR_KINDS[((ctx.case / 8) % RECUR_KINDS.len() as u64) as usize];
    let mut res = CaseResult::new(format!("recursion|{kind}"));
    let (out, hang) = match child::spawn_confirm_hang(&child::Spawn {
        ctx,
        role: "recur",
        extra: vec![("kind".into(), kind.into())],
        env: vec![],
        timeout: std::time::Duration::from_secs(8),
        tag: "recur",
        cwd: None,
        kill_after: None,
    }) {
        Ok(o) => o,
        Err(e) => {
            res.inconclusive(format!("cannot spawn child: {e}"));
            return res;
        }
    };
    if out.timed_out {
        if hang {
            res.violate(
                "hang",
                format!("C10/hang/recursive-logging/{kind}"),
                "a log call from within a Display implementation never returned (child killed after 8 s, twice in a row; normal duration < 0.1 s)",
            );
        } else {
            res.inconclusive("child exceeded the watchdog once");
        }
        return res;
    }
    let stderr = String::from_utf8_lossy(&out.stderr).to_string();
    if let Some(l) = stderr.lines().find(|l| l.starts_with("FLMON-CHILD-PANIC")) {
        let at = l.split(" at=").nth(1).unwrap_or("").split(' ').next().unwrap_or("");
        let file = at.rsplit_once(':').map(|x| x.0).unwrap_or(at);
        let msg = l.split(" msg=").nth(1).unwrap_or("");
        if util::in_repo_file(file) {
            res.violate(
                "panic",
                format!("C10/panic/{}/{}", util::repo_rel(file), util::normalise_msg(msg)),
                format!("recursive logging with {kind}: {l}"),
            );
        } else {
            res.inconclusive(format!("harness panic in child: {l}"));
        }
        return res;
    }
    if !out.clean_exit() {
        res.violate(
            "child-died",
            format!("C10/child-died/recursive-logging/{kind}"),
            out.describe(),
        );
        return res;
    }
    // logging continued: the sentinel is in the primary output
    let sentinel = format!("SENTINEL-{}", ctx.case);
    let found = match kind {
        k if k.starts_with("file-") || k == "syslog-additional" => {
            std::fs::read_to_string(ctx.dir.join("out").join("recur.log"))
                .unwrap_or_default()
                .contains(&sentinel)
        }
        k if k.starts_with("stderr") => stderr.contains(&sentinel),
        "stdout-capture" => String::from_utf8_lossy(&out.stdout).contains(&sentinel),
        _ => true,
    };
    if !found {
        res.violate(
            "logging-did-not-continue",
            format!("C10/logging-did-not-continue/recursive-logging/{kind}"),
            "the sentinel logged after the recursive records is missing",
        );
    }
    res.count("child_runs", 1);
    res.nontrivial = true;
    res.sample = Some(json!({"primary_writer_kind": kind}));
    res
}
