//! C04 — flush, shutdown and handle drop leave no accepted record behind; dropping one clone
//! of the handle does not stop later output.
//! Oracle: the output is read immediately (no sleep) after the call returned; every id whose
//! log call had completed before must be there, in order. The async writer thread is slowed at
//! `async_recv` so that a missing join shows deterministically.

use crate::child::{self, ChildArgs};
use crate::ctl;
use crate::family::{self, NameCfg, NamingK};
use crate::flw::{self, Clean, Crit, FlwCfg, FmtK, WMode};
use crate::p_c03::check_stream;
use crate::rng::Rng;
use crate::util::{CaseCtx, CaseResult, Verdict};
use flexi_logger::writers::LogWriter;
use flexi_logger::{DeferredNow, LogSpecification, Logger, LoggerHandle, WriteMode};
use serde_json::json;
use std::sync::{Arc, Mutex};

#[derive(Clone, Copy, Debug, PartialEq, Eq)]
pub enum Ending {
    Flush,
    Shutdown,
    DropLast,
    CloneDropContinue,
    /// two threads call shutdown() on clones at the same time; each reads the output as soon as
    /// its own call has returned
    ConcurrentShutdown,
    /// the thread that owns the last handle panics: the handle is dropped by unwinding
    DropLastByPanic,
    /// the last two clones are dropped by two threads at the same moment: one of them is the last
    ConcurrentDropLast,
}

#[derive(Clone, Copy, Debug, PartialEq, Eq)]
pub enum Out {
    File,
    FileRot,
    Writer,
}

/// a writer that persists only on flush()/shutdown()
#[derive(Default)]
pub struct PersistWriter {
    pub pending: Mutex<Vec<String>>,
    pub persisted: Arc<Mutex<Vec<String>>>,
}
impl PersistWriter {
    fn persist(&self) {
        let mut p = self.pending.lock().unwrap();
        self.persisted.lock().unwrap().append(&mut p);
    }
}
impl LogWriter for PersistWriter {
    fn write(&self, _now: &mut DeferredNow, record: &log::Record) -> std::io::Result<()> {
        self.pending.lock().unwrap().push(record.args().to_string());
        Ok(())
    }
    fn flush(&self) -> std::io::Result<()> {
        self.persist();
        Ok(())
    }
    fn shutdown(&self) {
        self.persist();
    }
}

fn gen_wmode(rng: &mut Rng, case: u64) -> WMode {
    let flusher_ok = case % 3 == 0;
    match rng.below(10) {
        0..=1 => WMode::Direct,
        2 => WMode::SupportCapture,
        3..=4 => WMode::BufDont(*rng.pick(&[40usize, 300, 8192])),
        5 => {
            if flusher_ok {
                WMode::BufFlush(*rng.pick(&[40usize, 8192]), *rng.pick(&[1u64, 1000]))
            } else {
                WMode::BufDont(8192)
            }
        }
        _ => WMode::Async {
            pool: *rng.pick(&[1usize, 2, 50]),
            msg: *rng.pick(&[8usize, 200]),
            flush_ms: if flusher_ok { *rng.pick(&[0u64, 1, 1000]) } else { 0 },
        },
    }
}

/// Many small loggers, each ended by two threads that drop the only two clones of the handle
/// at the same moment (spin barrier): one of the two drops is the last one, whichever it is, and
/// once both threads are through every record must be in the file (read while the logger object
/// itself is still alive, so nothing else can have flushed).
fn concurrent_drop_case(ctx: &mut CaseCtx) -> CaseResult {
    use std::sync::atomic::{AtomicUsize, Ordering};
    let rng = &mut ctx.rng;
    let wmode = match rng.below(3) {
        0 => WMode::BufDont(8192),
        1 => WMode::BufDont(300),
        _ => WMode::Async { pool: 2, msg: 200, flush_ms: 0 },
    };
    let mut res = CaseResult::new(format!("concurrent-drop-of-the-last-clones|{}", wmode.label()));
    let rounds = if ctx.thorough { 120 } else { 40 };
    let run = ctx.case;
    for round in 0..rounds {
        let dir = ctx.dir.join(format!("r{round}"));
        let cfg = FlwCfg {
            names: family::NameCfg {
                dir: dir.clone(),
                basename: "cd".into(),
                discr: None,
                start_ts: None,
                suffix: Some("log".into()),
                naming: family::NamingK::NoRotation,
            },
            use_ts: false,
            crit: None,
            clean: flw::Clean::Never,
            clean_bg: false,
            wmode,
            crlf: false,
            append: false,
            symlink: None,
            use_utc: false,
            max_level: log::LevelFilter::Trace,
            fmt: flw::FmtK::Raw,
            l2: true,
        };
        let (boxed, handle) = match cfg.logger().build() {
            Ok(x) => x,
            Err(e) => {
                res.inconclusive(format!("cannot build the logger: {e:?}"));
                break;
            }
        };
        let n = 1 + rng.below(3);
        for s in 0..n {
            let m = flw::msg_id(run, 0, s, 10);
            crate::spec::with_rec(log::Level::Info, "flmon::c04", Some("flmon::c04"), &m, |rec| boxed.log(rec));
        }
        let mut a = handle;
        let mut b = a.clone();
        // handles may carry saved specifications of their own: dropping them takes a moment
        if round % 2 == 1 {
            for _ in 0..150 {
                a.push_temp_spec(flexi_logger::LogSpecification::trace());
                b.push_temp_spec(flexi_logger::LogSpecification::trace());
            }
        }
        let gate = Arc::new(AtomicUsize::new(0));
        let mut joins = Vec::new();
        for h in [a, b] {
            let g = Arc::clone(&gate);
            joins.push(std::thread::spawn(move || {
                g.fetch_add(1, Ordering::SeqCst);
                while g.load(Ordering::SeqCst) < 2 {
                    std::hint::spin_loop();
                }
                drop(h);
            }));
        }
        for j in joins {
            let _ = j.join();
        }
        let content = std::fs::read(dir.join("cd.log")).unwrap_or_default();
        res.count("concurrent_drop_rounds", 1);
        res.count("immediate_reads", 1);
        match check_stream(&content, run, &[n], b"\n") {
            Ok(rep) => res.count("lines_checked", rep.lines),
            Err((kind, detail)) => {
                res.violate(
                    "record-left-behind",
                    format!("C04/{kind}/{}/concurrent-drop-of-the-last-clones", wmode.label()),
                    format!("round {round}: the only two clones of the handle were dropped by two threads at the same time; right after both drops returned: {detail}"),
                );
                drop(boxed);
                break;
            }
        }
        drop(boxed);
        let _ = std::fs::remove_dir_all(&dir);
    }
    res.absorb_panics("C04", "concurrent drop of the last clones");
    res.nontrivial = true;
    res
}

pub fn run_case(ctx: &mut CaseCtx) -> CaseResult {
    if ctx.case % 16 == 9 {
        return concurrent_drop_case(ctx);
    }
    if ctx.case % 8 == 7 {
        return std_case(ctx);
    }
    if ctx.case % 8 == 3 {
        return flush_under_load_case(ctx);
    }
    let rng = &mut ctx.rng;
    let out = *rng.pick(&[Out::File, Out::FileRot, Out::FileRot, Out::Writer]);
    let wmode = gen_wmode(rng, ctx.case);
    let sync_buffered = matches!(wmode, WMode::BufDont(_) | WMode::BufFlush(..));
    let ending = match rng.below(8) {
        0..=1 if !wmode.is_async() => Ending::Flush,
        0..=1 => Ending::Shutdown,
        2..=3 => Ending::Shutdown,
        4 => Ending::DropLastByPanic,
        5 if rng.chance(1, 2) => Ending::ConcurrentDropLast,
        5 => Ending::DropLast,
        6 if out != Out::Writer => Ending::ConcurrentShutdown,
        _ => Ending::CloneDropContinue,
    };
    let cap = match wmode {
        WMode::BufDont(c) | WMode::BufFlush(c, _) => c,
        _ => 200,
    };
    // volumes below / at / above the buffer capacity
    let n_before = *rng.pick(&[1u64, 2, 5, (cap / 30) as u64 + 1, (cap / 12) as u64 + 3, 300]);
    let n_after = *rng.pick(&[0u64, 1, 7, 150]);
    let threads = if rng.chance(1, 4) { rng.range(2, 4) as usize } else { 1 };
    let slow = wmode.is_async() && rng.chance(2, 3);
    // an additional file writer "aux" (own directory, own write mode): about a third of the
    // records is addressed to it; flush()/shutdown()/drop must cover it like the primary output
    let aux_mode: Option<WMode> = if rng.chance(1, 3) {
        Some(match rng.below(5) {
            0 => WMode::Direct,
            1 => WMode::BufDont(300),
            2 => WMode::BufDont(8192),
            3 => WMode::BufDont(1 << 20),
            _ => WMode::Async { pool: 2, msg: 200, flush_ms: 0 },
        })
    } else {
        None
    };
    let aux_rotating = rng.chance(1, 2);
    let aux_names = NameCfg {
        dir: ctx.dir.join("aux"),
        basename: "aux".into(),
        discr: None,
        start_ts: None,
        suffix: Some("log".into()),
        naming: if aux_rotating { NamingK::Numbers } else { NamingK::NoRotation },
    };
    let names = NameCfg {
        dir: ctx.dir.join("out"),
        basename: "c04".into(),
        discr: None,
        start_ts: None,
        suffix: Some("log".into()),
        naming: if out == Out::FileRot {
            flw::gen_naming(rng, false)
        } else {
            NamingK::NoRotation
        },
    };
    let cfg = FlwCfg {
        names,
        use_ts: false,
        crit: if out == Out::FileRot {
            Some(Crit::Size(*rng.pick(&[100u64, 2000])))
        } else {
            None
        },
        clean: Clean::Never,
        clean_bg: false,
        wmode,
        crlf: false,
        append: false,
        symlink: None,
        use_utc: false,
        max_level: log::LevelFilter::Trace,
        fmt: FmtK::Raw,
        l2: true,
    };
    let mut res = CaseResult::new(format!(
        "{out:?}|{}{}|{ending:?}|before{}|after{}|t{threads}|{}",
        wmode.label(),
        aux_mode.map_or(String::new(), |m| format!("+aux:{}", m.label())),
        match n_before {
            0..=5 => "small",
            6..=50 => "mid",
            _ => "large",
        },
        n_after.min(2),
        if slow { "slow-writer" } else { "-" },
    ));
    ctl::install(false);
    ctl::clock_unset();
    if slow {
        ctl::with_ctl(|c| {
            c.delays
                .push(("async_recv".into(), "async_file_writer".into(), 150));
        });
    }
    let persisted: Arc<Mutex<Vec<String>>> = Arc::new(Mutex::new(Vec::new()));
    let lg = Logger::with(LogSpecification::trace())
        .format(flw::fmt_raw)
        .write_mode(wmode.to_write_mode())
        .error_channel(flw::error_channel());
    let lg = if out == Out::Writer {
        lg.log_to_writer(Box::new(PersistWriter {
            pending: Mutex::new(Vec::new()),
            persisted: persisted.clone(),
        }))
    } else {
        let mut l = lg.log_to_file(cfg.file_spec());
        if let (Some(n), Some(c)) = (cfg.naming(), cfg.criterion()) {
            l = l.rotate(c, n, cfg.cleanup());
        }
        l
    };
    let lg = match aux_mode {
        None => lg,
        Some(m) => {
            let mut b = flexi_logger::writers::FileLogWriter::builder(
                flexi_logger::FileSpec::default()
                    .directory(&aux_names.dir)
                    .basename("aux")
                    .suppress_timestamp()
                    .suffix("log"),
            )
            .format(flw::fmt_raw)
            .write_mode(m.to_write_mode());
            if aux_rotating {
                b = b.rotate(
                    flexi_logger::Criterion::Size(500),
                    flexi_logger::Naming::Numbers,
                    flexi_logger::Cleanup::Never,
                );
            }
            match b.try_build() {
                Ok(w) => lg.add_writer("aux", Box::new(w)),
                Err(e) => {
                    res.violate("build-failed", "C04/build-failed/aux", format!("{e:?}"));
                    ctl::uninstall();
                    return res;
                }
            }
        }
    };
    let (boxed, handle) = match lg.build() {
        Ok(x) => x,
        Err(e) => {
            res.violate("build-failed", "C04/build-failed", format!("{e:?}"));
            ctl::uninstall();
            return res;
        }
    };
    let boxed: Arc<Box<dyn log::Log>> = Arc::new(boxed);
    let run = ctx.case;
    // next sequence number per thread: [0, threads) for the primary output, [threads, 2*threads)
    // for the records of the same threads that are addressed to the additional writer
    let mut next: Vec<u64> = vec![0; 2 * threads];
    let has_aux = aux_mode.is_some();
    let log_batch = |boxed: &Arc<Box<dyn log::Log>>, next: &mut Vec<u64>, n: u64, rng: &mut Rng| {
        let mut joins = Vec::new();
        for t in 0..threads {
            let b = Arc::clone(boxed);
            let (mut s_main, mut s_aux) = (next[t], next[threads + t]);
            let mut trng = rng.fork();
            let mut work = move || {
                for _ in 0..n {
                    if has_aux && trng.chance(1, 3) {
                        let m = flw::msg_id(run, (threads + t) as u64, s_aux, trng.usize(40));
                        s_aux += 1;
                        flw::with_record(log::Level::Info, "{aux}", &m, |r| b.log(r));
                    } else {
                        let m = flw::msg_id(run, t as u64, s_main, trng.usize(40));
                        s_main += 1;
                        flw::with_record(log::Level::Info, "flmon::c04", &m, |r| b.log(r));
                    }
                }
                (s_main, s_aux)
            };
            if threads == 1 {
                let (a, b2) = work();
                next[t] = a;
                next[threads + t] = b2;
            } else {
                joins.push((t, std::thread::spawn(work)));
            }
        }
        // join = happens-before for "the log call had completed"
        for (t, j) in joins {
            if let Ok((a, b2)) = j.join() {
                next[t] = a;
                next[threads + t] = b2;
            }
        }
    };
    let facts = format!("{out:?}/{}/{ending:?}", wmode.label());
    let read_now = |res: &mut CaseResult, expected: &[u64], when: &str, sig_extra: &str| -> bool {
        res.count("immediate_reads", 1);
        let content: Vec<u8> = if out == Out::Writer {
            let p = persisted.lock().unwrap();
            let mut v = Vec::new();
            for l in p.iter() {
                v.extend_from_slice(l.as_bytes());
                v.push(b'\n');
            }
            v
        } else {
            match family::observe(&cfg.names) {
                Ok(obs) => match obs.stream() {
                    Ok(s) => s,
                    Err(e) => {
                        res.violate("unreadable", format!("C04/unreadable/{facts}"), e);
                        return false;
                    }
                },
                Err(_) => Vec::new(),
            }
        };
        let mut exp_main = expected.to_vec();
        for e in exp_main.iter_mut().skip(threads) {
            *e = 0;
        }
        match check_stream(&content, run, &exp_main, b"\n") {
            Ok(rep) => {
                res.count("lines_checked", rep.lines);
            }
            Err((kind, detail)) => {
                res.violate(
                    "record-left-behind",
                    format!("C04/{kind}/{facts}{sig_extra}"),
                    format!("{when}: {detail}"),
                );
                return false;
            }
        }
        // the additional writer; after a mere flush() only a synchronous one is judged
        if let Some(m) = aux_mode {
            if when.contains("after flush()") && m.is_async() {
                return true;
            }
            let mut exp_aux = expected.to_vec();
            for e in exp_aux.iter_mut().take(threads) {
                *e = 0;
            }
            let content = match family::observe(&aux_names).map(|o| o.stream()) {
                Ok(Ok(s)) => s,
                Ok(Err(e)) => {
                    res.violate("unreadable", format!("C04/unreadable/{facts}/aux"), e);
                    return false;
                }
                Err(_) => Vec::new(),
            };
            res.count("immediate_reads_of_additional_writer", 1);
            match check_stream(&content, run, &exp_aux, b"\n") {
                Ok(rep) => res.count("lines_checked_additional_writer", rep.lines),
                Err((kind, detail)) => {
                    res.violate(
                        "record-left-behind",
                        format!("C04/{kind}/{facts}/additional-writer:{}{sig_extra}", m.label()),
                        format!("{when}, additional file writer: {detail}"),
                    );
                    return false;
                }
            }
        }
        true
    };
    log_batch(&boxed, &mut next, n_before, rng);
    let mut handle: Option<LoggerHandle> = Some(handle);
    let mut ok = true;
    match ending {
        Ending::Flush => {
            handle.as_ref().unwrap().flush();
            if sync_buffered || matches!(wmode, WMode::Direct | WMode::SupportCapture) {
                ok = read_now(&mut res, &next, "immediately after flush()", "");
            }
            if ok {
                log_batch(&boxed, &mut next, n_after, rng);
                handle.as_ref().unwrap().shutdown();
                read_now(&mut res, &next, "immediately after the final shutdown()", "/final");
            }
        }
        Ending::Shutdown => {
            handle.as_ref().unwrap().shutdown();
            read_now(&mut res, &next, "immediately after shutdown()", "");
        }
        Ending::DropLast => {
            drop(handle.take());
            read_now(&mut res, &next, "immediately after the last handle was dropped", "");
        }
        Ending::CloneDropContinue => {
            let c = handle.as_ref().unwrap().clone();
            drop(c);
            log_batch(&boxed, &mut next, n_after.max(1), rng);
            handle.as_ref().unwrap().shutdown();
            read_now(
                &mut res,
                &next,
                "after clone-drop, further records, then shutdown()",
                "",
            );
        }
        Ending::DropLastByPanic => {
            let h = handle.take().unwrap();
            let j = std::thread::Builder::new()
                .name("flmon-intentional-panic".into())
                .spawn(move || {
                    let _owned = h;
                    panic!("flmon: intentional panic of the thread that owns the last handle");
                })
                .expect("spawn");
            let _ = j.join();
            // the intentional panic is not a finding
            let _ = crate::util::take_panics();
            read_now(&mut res, &next, "immediately after the last handle was dropped by a panicking thread", "");
        }
        Ending::ConcurrentDropLast => {
            // (repeated clone/drop rounds first would only delay the moment; one round per case,
            // many cases: each thread spins on the barrier and drops at once)
            let a = handle.take().unwrap();
            let b = a.clone();
            let barrier = Arc::new(std::sync::Barrier::new(2));
            let mut joins = Vec::new();
            for h in [a, b] {
                let bar = Arc::clone(&barrier);
                joins.push(std::thread::spawn(move || {
                    bar.wait();
                    drop(h);
                }));
            }
            for j in joins {
                let _ = j.join();
            }
            read_now(&mut res, &next, "immediately after the last two clones were dropped by two threads at the same time", "/concurrent-drop");
        }
        Ending::ConcurrentShutdown => {
            let mut exp_main = next.clone();
            for e in exp_main.iter_mut().skip(threads) {
                *e = 0;
            }
            let barrier = Arc::new(std::sync::Barrier::new(2));
            let mut joins = Vec::new();
            for _ in 0..2 {
                let h = handle.as_ref().unwrap().clone();
                let b = Arc::clone(&barrier);
                let names = cfg.names.clone();
                let exp = exp_main.clone();
                joins.push(std::thread::spawn(move || {
                    b.wait();
                    h.shutdown();
                    // whoever comes back from shutdown() may rely on the output being complete
                    let content = match family::observe(&names).map(|o| o.stream()) {
                        Ok(Ok(c)) => c,
                        Ok(Err(e)) => return (h, Err(("unreadable".to_string(), e))),
                        Err(_) => Vec::new(),
                    };
                    let r = check_stream(&content, run, &exp, b"\n").map(|rep| rep.lines);
                    (h, r)
                }));
            }
            let mut kept = Vec::new();
            for (i, j) in joins.into_iter().enumerate() {
                match j.join() {
                    Ok((h, r)) => {
                        kept.push(h);
                        res.count("immediate_reads", 1);
                        match r {
                            Ok(lines) => res.count("lines_checked", lines),
                            Err((kind, detail)) => res.violate(
                                "record-left-behind",
                                format!("C04/{kind}/{facts}/concurrent-shutdown"),
                                format!("thread {i} of two that called shutdown() at the same time, right after its call returned: {detail}"),
                            ),
                        }
                    }
                    Err(_) => res.inconclusive("a shutdown thread panicked"),
                }
            }
            drop(kept);
        }
    }
    drop(handle);
    drop(boxed);
    ctl::uninstall();
    res.absorb_panics("C04", "flush/shutdown/drop history");
    res.count("records", next.iter().sum());
    res.nontrivial = true;
    if ctx.case < 2 || res.verdict != Verdict::Held {
        res.sample = Some(json!({
            "output": format!("{out:?}"), "write_mode": format!("{wmode:?}"),
            "ending": format!("{ending:?}"), "records_before": n_before, "records_after": n_after,
            "threads": threads, "slow_async_writer": slow,
            "additional_writer": aux_mode.map(|m| format!("{m:?}, rotating: {aux_rotating}")),
            "naming": cfg.names.naming.label(),
        }));
    }
    res
}

// ------------------------------------------------------------------------------------------
// flush() while other threads keep logging: the marker the flushing thread logged before must be
// physically there when flush() returns, whoever holds the writer at that moment

fn flush_under_load_case(ctx: &mut CaseCtx) -> CaseResult {
    let rng = &mut ctx.rng;
    let wmode = match rng.below(6) {
        0 => WMode::Direct,
        1 => WMode::SupportCapture,
        2 => WMode::BufFlush(8192, 1000),
        3 => WMode::BufDont(100_000),
        _ => WMode::BufDont(*rng.pick(&[8192usize, 1 << 20, 1 << 24])),
    };
    let rotating = rng.chance(1, 3);
    let noise_threads = rng.range(1, 4) as usize;
    let rounds = if ctx.thorough { 40 } else { 20 };
    let names = NameCfg {
        dir: ctx.dir.join("out"),
        basename: "c04".into(),
        discr: None,
        start_ts: None,
        suffix: Some("log".into()),
        naming: if rotating { flw::gen_naming(rng, false) } else { NamingK::NoRotation },
    };
    let cfg = FlwCfg {
        names,
        use_ts: false,
        // rare rotations: a stable directory listing must be obtainable between two of them
        crit: if rotating { Some(Crit::Size(30_000)) } else { None },
        clean: Clean::Never,
        clean_bg: false,
        wmode,
        crlf: false,
        append: false,
        symlink: None,
        use_utc: false,
        max_level: log::LevelFilter::Trace,
        fmt: FmtK::Raw,
        l2: true,
    };
    let facts = format!(
        "{}/{}/flush-while-others-log",
        if rotating { "FileRot" } else { "File" },
        wmode.label()
    );
    let mut res = CaseResult::new(format!("{facts}|noise{noise_threads}"));
    ctl::install(false);
    ctl::clock_unset();
    let mut lg = Logger::with(LogSpecification::trace())
        .format(flw::fmt_raw)
        .write_mode(wmode.to_write_mode())
        .error_channel(flw::error_channel())
        .log_to_file(cfg.file_spec());
    if let (Some(n), Some(c)) = (cfg.naming(), cfg.criterion()) {
        lg = lg.rotate(c, n, cfg.cleanup());
    }
    let (boxed, handle) = match lg.build() {
        Ok(x) => x,
        Err(e) => {
            res.violate("build-failed", "C04/build-failed", format!("{e:?}"));
            ctl::uninstall();
            return res;
        }
    };
    let boxed: Arc<Box<dyn log::Log>> = Arc::new(boxed);
    let run = ctx.case;
    let stop = Arc::new(std::sync::atomic::AtomicBool::new(false));
    let mut joins = Vec::new();
    for t in 1..=noise_threads {
        let b = Arc::clone(&boxed);
        let stop = Arc::clone(&stop);
        let mut trng = rng.fork();
        joins.push(std::thread::spawn(move || {
            let mut s = 0u64;
            // bounded, so that the files stay small however long the main thread takes
            while !stop.load(std::sync::atomic::Ordering::Relaxed) && s < 6000 {
                let m = flw::msg_id(run, t as u64, s, trng.usize(40));
                flw::with_record(log::Level::Info, "flmon::c04", &m, |r| b.log(r));
                s += 1;
                if s % 64 == 0 {
                    std::thread::yield_now();
                }
            }
            s
        }));
    }
    // a listing that is the same before and after the files were read: no rotation in between,
    // so every file that was read is the file that was listed
    let stable_stream = |cfg: &FlwCfg| -> Option<Vec<u8>> {
        for _ in 0..20 {
            let before: Vec<String> = std::fs::read_dir(&cfg.names.dir)
                .ok()?
                .filter_map(|e| e.ok().map(|e| e.file_name().to_string_lossy().to_string()))
                .collect();
            let obs = family::observe(&cfg.names);
            let after: Vec<String> = std::fs::read_dir(&cfg.names.dir)
                .ok()?
                .filter_map(|e| e.ok().map(|e| e.file_name().to_string_lossy().to_string()))
                .collect();
            let (mut b, mut a) = (before, after);
            b.sort();
            a.sort();
            if a != b {
                continue;
            }
            if let Ok(o) = obs {
                if let Ok(s) = o.stream() {
                    return Some(s);
                }
            }
        }
        None
    };
    let mut judged = 0u64;
    let mut unstable = 0u64;
    for k in 0..rounds {
        let m = flw::msg_id(run, 0, k, rng.usize(40));
        flw::with_record(log::Level::Info, "flmon::c04", &m, |r| boxed.log(r));
        handle.flush();
        match stable_stream(&cfg) {
            None => unstable += 1,
            Some(content) => {
                judged += 1;
                let needle = format!("{m}\n");
                let found = content
                    .windows(needle.len())
                    .any(|w| w == needle.as_bytes());
                if !found {
                    res.violate(
                        "record-left-behind",
                        format!("C04/record-not-flushed/{facts}"),
                        format!(
                            "round {k}: record {run}.0.{k} was logged, then flush() returned, and the record is in none of the files ({} bytes read) while {noise_threads} other thread(s) keep logging",
                            content.len()
                        ),
                    );
                    break;
                }
            }
        }
        if rng.chance(1, 3) {
            std::thread::sleep(std::time::Duration::from_micros(rng.range(10, 300) as u64));
        }
    }
    stop.store(true, std::sync::atomic::Ordering::Relaxed);
    let mut expected = vec![rounds.min(if res.verdict == Verdict::Held { rounds } else { 0 })];
    let mut noise_total = 0u64;
    for j in joins {
        let n = j.join().unwrap_or(0);
        noise_total += n;
        expected.push(n);
    }
    handle.shutdown();
    if res.verdict == Verdict::Held {
        // everything, exactly once, in per-thread order
        match family::observe(&cfg.names).map(|o| o.stream()) {
            Ok(Ok(content)) => {
                if let Err((kind, detail)) = check_stream(&content, run, &expected, b"\n") {
                    res.violate(
                        "record-left-behind",
                        format!("C04/{kind}/{facts}/final"),
                        format!("after the final shutdown(): {detail}"),
                    );
                }
            }
            Ok(Err(e)) => res.violate("unreadable", format!("C04/unreadable/{facts}"), e),
            Err(e) => res.violate("unreadable", format!("C04/unreadable/{facts}"), e.to_string()),
        }
    }
    drop(handle);
    drop(boxed);
    ctl::uninstall();
    res.absorb_panics("C04", "flush while other threads log");
    res.count("flush_rounds_judged_under_load", judged);
    res.count("flush_rounds_without_stable_listing", unstable);
    res.count("records", noise_total + rounds);
    res.nontrivial = judged > 0;
    if judged == 0 && res.verdict == Verdict::Held {
        res.inconclusive("no round could be judged (no stable directory listing)".to_string());
    }
    if ctx.case < 12 || res.verdict != Verdict::Held {
        res.sample = Some(json!({
            "write_mode": format!("{wmode:?}"), "rotating": rotating, "noise_threads": noise_threads,
            "rounds": rounds, "judged": judged, "noise_records": noise_total,
            "naming": cfg.names.naming.label(),
        }));
    }
    res
}

// ------------------------------------------------------------------------------------------
// stdout / stderr: a child that exits right after the ending operation

#[derive(Debug, Clone)]
struct StdScenario {
    stdout: bool,
    mode: u8,
    n_before: u64,
    n_after: u64,
    ending: Ending,
}
fn gen_std(rng: &mut Rng) -> StdScenario {
    let mode = rng.below(5) as u8;
    StdScenario {
        stdout: rng.chance(1, 2),
        mode,
        n_before: *rng.pick(&[1u64, 3, 40, 400]),
        n_after: *rng.pick(&[0u64, 1, 30]),
        ending: match rng.below(4) {
            0 => Ending::Shutdown,
            1 => Ending::DropLast,
            2 => Ending::CloneDropContinue,
            _ => {
                if mode % 5 == 3 {
                    Ending::Shutdown
                } else {
                    Ending::Flush
                }
            }
        },
    }
}
fn std_mode(i: u8) -> (WriteMode, &'static str) {
    match i % 5 {
        0 => (WriteMode::Direct, "Unbuffered"),
        1 => (WriteMode::BufferDontFlushWith(64), "Buffered"),
        2 => (WriteMode::BufferDontFlush, "Buffered"),
        3 => (
            WriteMode::AsyncWith {
                pool_capa: 2,
                message_capa: 16,
                flush_interval: std::time::Duration::from_secs(0),
            },
            "Async",
        ),
        _ => (WriteMode::SupportCapture, "SupportCapture"),
    }
}

pub fn child_main(a: &ChildArgs) -> i32 {
    let mut ctx = child::ctx_of(a);
    let sc = gen_std(&mut ctx.rng);
    let lg = Logger::with(LogSpecification::trace())
        .format(flw::fmt_raw)
        .write_mode(std_mode(sc.mode).0)
        .error_channel(flexi_logger::ErrorChannel::File(a.dir.join("errchan.txt")));
    let lg = if sc.stdout { lg.log_to_stdout() } else { lg.log_to_stderr() };
    ctl::install(false);
    ctl::with_ctl(|c| {
        c.delays
            .push(("async_std_recv".into(), "async_std_writer".into(), 100));
    });
    let handle = match lg.start() {
        Ok(h) => h,
        Err(_) => return 3,
    };
    let run = a.case;
    let mut seq = 0u64;
    let mut ack = child::AckFile::create(&a.dir.join("acks.txt")).ok();
    let mut log_n = |n: u64, seq: &mut u64| {
        for _ in 0..n {
            log::info!(target: "flmon::c04", "{}", flw::msg_id(run, 0, *seq, 10));
            *seq += 1;
        }
    };
    log_n(sc.n_before, &mut seq);
    let mut handle = Some(handle);
    let mut must_have = seq;
    match sc.ending {
        Ending::Flush => {
            handle.as_ref().unwrap().flush();
            // exit without any further orderly shutdown of the logger: forget the handle
            std::mem::forget(handle.take());
        }
        Ending::Shutdown | Ending::ConcurrentShutdown | Ending::DropLastByPanic => {
            handle.as_ref().unwrap().shutdown()
        }
        Ending::DropLast | Ending::ConcurrentDropLast => drop(handle.take()),
        Ending::CloneDropContinue => {
            let c = handle.as_ref().unwrap().clone();
            drop(c);
            log_n(sc.n_after.max(1), &mut seq);
            must_have = seq;
            handle.as_ref().unwrap().shutdown();
        }
    }
    if let Some(a) = ack.as_mut() {
        a.ack(&format!("must_have {must_have}"));
    }
    // die immediately: nothing after this point may be needed for the records to be out
    unsafe { libc::_exit(0) }
}

fn std_case(ctx: &mut CaseCtx) -> CaseResult {
    let sc = gen_std(&mut ctx.rng);
    let (_, mlabel) = std_mode(sc.mode);
    let stream_name = if sc.stdout { "stdout" } else { "stderr" };
    let mut res = CaseResult::new(format!(
        "{stream_name}|{mlabel}|{:?}|before{}",
        sc.ending,
        sc.n_before
    ));
    let (out, hang) = match child::spawn_confirm_hang(&child::Spawn {
        ctx,
        role: "std",
        extra: vec![],
        env: vec![],
        timeout: std::time::Duration::from_secs(15),
        tag: "std",
        cwd: None,
        kill_after: None,
    }) {
        Ok(o) => o,
        Err(e) => {
            res.inconclusive(format!("cannot spawn child: {e}"));
            return res;
        }
    };
    let facts = format!("{stream_name}/{mlabel}/{:?}", sc.ending);
    if out.timed_out {
        if hang {
            res.violate("hang", format!("C04/hang/{facts}"), "child did not exit within 15 s, twice");
        } else {
            res.inconclusive("child exceeded the watchdog once");
        }
        return res;
    }
    if !out.clean_exit() {
        res.violate("child-died", format!("C04/child-died/{facts}"), out.describe());
        return res;
    }
    let must_have: u64 = std::fs::read_to_string(ctx.dir.join("acks.txt"))
        .unwrap_or_default()
        .lines()
        .filter_map(|l| l.strip_prefix("must_have ").and_then(|v| v.parse().ok()))
        .last()
        .unwrap_or(0);
    // flush() is asserted for the synchronous modes only
    let asserted = !(sc.ending == Ending::Flush && mlabel == "Async");
    let captured = if sc.stdout { &out.stdout } else { &out.stderr };
    if asserted {
        match check_stream(captured, ctx.case, &[must_have], b"\n") {
            Ok(rep) => res.count("lines_checked", rep.lines),
            Err((kind, detail)) => res.violate(
                "record-left-behind",
                format!("C04/{kind}/{facts}"),
                format!("child exited right after the operation: {detail}"),
            ),
        }
    }
    res.count("child_runs", 1);
    res.nontrivial = asserted;
    if ctx.case < 16 || res.verdict != Verdict::Held {
        res.sample = Some(json!({"scenario": format!("{sc:?}")}));
    }
    res
}
