//! C02 — a record is written iff the active specification (and text filter) enables it;
//! the global max-level shortcut never hides an accepted record; enabled() never answers false
//! for a record that is written.

use crate::spec::{self, MSpec, RecFilter, RecWriter, Recorder};
use crate::util::{CaseCtx, CaseResult, Verdict};
use flexi_logger::{LogSpecification, Logger};
use log::LevelFilter;
use serde_json::json;

pub fn run_case(ctx: &mut CaseCtx) -> CaseResult {
    let rng = &mut ctx.rng;
    let m = spec::gen_mspec(rng, true, true);
    let via_string = rng.chance(1, 2);
    let observe_filter = rng.chance(1, 3);
    let n_add = rng.below(3) as usize;
    let mut res = CaseResult::new(format!(
        "{}|{}|names{}|{}|{}|add{}",
        if via_string { "string" } else { "builder" },
        if observe_filter { "line-filter" } else { "writer" },
        m.names().len().min(4),
        if m.has_default() { "default" } else { "nodefault" },
        if m.text.is_some() { "text" } else { "-" },
        n_add,
    ));
    // the real specification
    let spec_string;
    let (real, model): (LogSpecification, MSpec) = if via_string {
        spec_string = m.to_spec_string(rng);
        match LogSpecification::parse(&spec_string) {
            Ok(s) => (s, m.clone()),
            Err(e) => {
                res.violate(
                    "wellformed-spec-rejected",
                    "C02/wellformed-spec-rejected",
                    format!("{spec_string:?}: {e:?}"),
                );
                return res;
            }
        }
    } else {
        spec_string = String::new();
        (m.to_real_via_builder(), m.with_builder_default())
    };
    let sink = Recorder::default();
    let filter_sink = Recorder::default();
    let mut logger = Logger::with(real)
        .log_to_writer(Box::new(RecWriter {
            rec: sink.clone(),
            ceiling: LevelFilter::Trace,
            honour_ceiling: false,
        }))
        .error_channel(crate::flw::error_channel());
    if observe_filter {
        logger = logger.filter(Box::new(RecFilter {
            rec: filter_sink.clone(),
        }));
    }
    let mut add: Vec<(String, LevelFilter, Recorder)> = Vec::new();
    for i in 0..n_add {
        let name = format!("W{i}");
        let ceiling = *rng.pick(&spec::FILTERS);
        let r = Recorder::default();
        logger = logger.add_writer(
            name.clone(),
            Box::new(RecWriter {
                rec: r.clone(),
                ceiling,
                honour_ceiling: true,
            }),
        );
        add.push((name, ceiling, r));
    }
    let (boxed, handle) = match logger.build() {
        Ok(x) => x,
        Err(e) => {
            res.violate("build-failed", "C02/build-failed", format!("{e:?}"));
            return res;
        }
    };
    let targets = spec::grid_targets(&[&model]);
    let msgs: Vec<String> = match &model.text {
        Some(t) => t.messages(),
        None => vec!["plain message".to_string()],
    };
    let watch = if observe_filter { &filter_sink } else { &sink };
    let g = spec::check_grid(boxed.as_ref(), watch, &model, &targets, &msgs);
    res.count("grid_points", g.points);
    res.count("enabled_grid_points", g.enabled_points);
    if let Some((kind, detail)) = g.mismatch {
        res.violate(
            &kind,
            format!(
                "C02/{kind}/{}{}",
                if via_string { "string" } else { "builder" },
                if model.text.is_some() { "/text" } else { "" }
            ),
            format!("spec {:?} {spec_string:?}: {detail}", model.entries),
        );
    }
    // the active specification is replaced by one that differs only in the text filter (other
    // regex, regex added, regex removed): filtering must follow the new one
    if res.verdict == Verdict::Held && rng.chance(1, 2) {
        let mut m2 = model.clone();
        m2.text = match (&model.text, rng.below(3)) {
            (Some(_), 0) => None,
            _ => {
                let mut t = spec::gen_text(rng);
                while Some(&t) == model.text.as_ref() {
                    t = spec::gen_text(rng);
                }
                Some(t)
            }
        };
        let real2 = if via_string {
            LogSpecification::parse(m2.to_spec_string(rng)).ok()
        } else {
            Some(m2.to_real_via_builder())
        };
        if let Some(r2) = real2 {
            handle.set_new_spec(r2);
            let mut msgs2: Vec<String> = match &m2.text {
                Some(t) => t.messages(),
                None => vec!["plain message".to_string()],
            };
            if let Some(t) = &model.text {
                msgs2.extend(t.messages().into_iter().take(3));
            }
            let g2 = spec::check_grid(boxed.as_ref(), watch, &m2, &targets, &msgs2);
            res.count("grid_points", g2.points);
            res.count("text_filter_only_changes", 1);
            if let Some((kind, detail)) = g2.mismatch {
                res.violate(
                    &kind,
                    format!("C02/{kind}/after-text-filter-only-change"),
                    format!(
                        "spec {:?}, text filter {:?} -> {:?}: {detail}",
                        model.entries,
                        model.text.as_ref().map(|t| t.regex()),
                        m2.text.as_ref().map(|t| t.regex())
                    ),
                );
            }
        }
    }
    // additional writers: ceiling admitted by the global max level, brace target delivery,
    // enabled() never false for a record the writer gets
    let max = log::max_level();
    for (name, ceiling, r) in &add {
        if *ceiling > max {
            res.violate(
                "max-level-hides-additional-writer",
                "C02/max-level-hides-additional-writer",
                format!("writer {name} accepts up to {ceiling} but log::max_level() is {max}"),
            );
        }
        let target = format!("{{{name}}}");
        for lvl in spec::LEVELS {
            r.take();
            let meta = log::Metadata::builder().level(lvl).target(&target).build();
            let en = boxed.enabled(&meta);
            if lvl <= max {
                spec::with_rec(lvl, &target, Some("flmon::c02"), "to additional writer", |rec| {
                    boxed.log(rec);
                });
            }
            let got = r.take().len();
            res.count("brace_points", 1);
            let want = usize::from(lvl <= *ceiling);
            if got != want {
                res.violate(
                    "additional-writer-delivery",
                    "C02/additional-writer-delivery",
                    format!("target {target} level {lvl}: writer ceiling {ceiling}, delivered {got} times (max_level {max})"),
                );
            }
            if got > 0 && !en {
                res.violate(
                    "enabled()-false-for-written-record",
                    "C02/enabled()-false-for-written-record/additional-writer",
                    format!(
                        "target {target} level {lvl}: the writer (ceiling {ceiling}) received the record but Log::enabled() answered false"
                    ),
                );
            }
        }
    }
    // lists with several addressees (every pair of writers in both orders, and _Default with a
    // module path from the grid): whoever gets the record, enabled() must not have said false
    {
        let mut lists: Vec<Vec<String>> = Vec::new();
        for (i, a) in add.iter().enumerate() {
            for (j, b) in add.iter().enumerate() {
                if i != j {
                    lists.push(vec![a.0.clone(), b.0.clone()]);
                }
            }
            lists.push(vec![a.0.clone(), "_Default".into()]);
            lists.push(vec!["_Default".into(), a.0.clone()]);
        }
        lists.push(vec!["_Default".into()]);
        let modules: Vec<&String> = targets.iter().take(4).collect();
        for list in &lists {
            let target = format!("{{{}}}", list.join(","));
            for module in &modules {
                for lvl in spec::LEVELS {
                    for (_, _, r) in &add {
                        r.take();
                    }
                    sink.take();
                    filter_sink.take();
                    let meta = log::Metadata::builder().level(lvl).target(&target).build();
                    let en = boxed.enabled(&meta);
                    if lvl <= max {
                        spec::with_rec(lvl, &target, Some(module.as_str()), "plain message", |rec| {
                            boxed.log(rec);
                        });
                    }
                    let written = add.iter().map(|(_, _, r)| r.take().len()).sum::<usize>()
                        + sink.take().len()
                        + filter_sink.take().len();
                    res.count("multi_addressee_points", 1);
                    if written > 0 && !en {
                        res.violate(
                            "enabled()-false-for-written-record",
                            "C02/enabled()-false-for-written-record/several-addressees",
                            format!(
                                "target {target} module {module:?} level {lvl}: the record was written {written} time(s) but Log::enabled() answered false (writers {:?}, spec {:?})",
                                add.iter().map(|a| format!("{}<={}", a.0, a.1)).collect::<Vec<_>>(),
                                model.entries
                            ),
                        );
                    }
                }
            }
            if res.verdict != Verdict::Held {
                break;
            }
        }
    }
    drop(handle);
    drop(boxed);
    res.absorb_panics("C02", "spec grid");
    res.nontrivial = g.points > 0 && g.enabled_points > 0 && g.enabled_points < g.points;
    if ctx.case < 3 || res.verdict != Verdict::Held {
        res.sample = Some(json!({
            "spec_entries": format!("{:?}", model.entries),
            "text_filter": model.text.as_ref().map(|t| t.regex()),
            "spec_string": spec_string,
            "targets": targets.iter().take(30).collect::<Vec<_>>(),
            "additional_writers": add.iter().map(|a| format!("{}:{}", a.0, a.1)).collect::<Vec<_>>(),
        }));
    }
    res
}
