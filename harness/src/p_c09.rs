//! C09 — age criterion: rotate exactly at the first write in a later clock period.
//! Oracle: partition model on the virtual instants + infix = start instant of the content;
//! plus a real-time cross-check (Age::Second, no clock hook) of the file-metadata path.

use crate::ctl;
use crate::family::{self, NamingK};
use crate::flw::{self, AgeK, Clean, Crit, Driver, FlwCfg, FmtK, HOp, Hist, WMode};
use crate::util::{CaseCtx, CaseResult, Verdict, LEVELS};
use chrono::{Local, TimeZone, Timelike};
use serde_json::json;

const S: i64 = 1_000_000_000;

fn anchor_ns(rng: &mut crate::rng::Rng) -> i64 {
    let anchors: [(i32, u32, u32, u32, u32, u32); 9] = [
        (2021, 1, 31, 23, 59, 58),
        (2021, 12, 31, 23, 59, 58),
        (2021, 2, 28, 23, 59, 59),
        (2024, 2, 28, 23, 59, 59),
        (2024, 2, 29, 12, 0, 0),
        (2022, 6, 15, 12, 59, 59),
        (2022, 6, 15, 12, 34, 59),
        (2023, 4, 30, 23, 59, 57),
        (2022, 10, 9, 7, 8, 9),
    ];
    let (y, mo, d, h, mi, s) = *rng.pick(&anchors);
    let t = Local
        .with_ymd_and_hms(y, mo, d, h, mi, s)
        .earliest()
        .map(|t| t.timestamp())
        .unwrap_or(1_615_714_013);
    t * S + rng.range(0, 999) * 1_000_000
}

pub fn run_case(ctx: &mut CaseCtx) -> CaseResult {
    if ctx.case == 0 && (ctx.shard == 0 || (ctx.thorough && ctx.shard < 8)) {
        return real_time_case(ctx);
    }
    let rng = &mut ctx.rng;
    let age = *rng.pick(&[AgeK::Second, AgeK::Minute, AgeK::Hour, AgeK::Day]);
    let crit = if rng.chance(1, 4) {
        Crit::AgeOrSize(age, *rng.pick(&[0u64, 10, 100, 1000]))
    } else {
        Crit::Age(age)
    };
    let naming = flw::gen_naming(rng, true);
    let (names, _) = flw::gen_name_parts(rng, &ctx.dir, naming, false);
    let wmode = match rng.below(8) {
        0..=3 => WMode::Direct,
        4..=6 => WMode::BufDont(*rng.pick(&[1usize, 64, 8192])),
        _ => WMode::SupportCapture,
    };
    let tz_offset = Local::now().offset().local_minus_utc();
    let cfg = FlwCfg {
        names,
        use_ts: false,
        crit: Some(crit),
        clean: Clean::Never,
        clean_bg: false,
        wmode,
        crlf: rng.chance(1, 4),
        append: rng.chance(1, 2),
        symlink: None,
        use_utc: rng.chance(1, 6),
        max_level: log::LevelFilter::Trace,
        fmt: FmtK::Raw,
        l2: rng.chance(1, 5),
    };
    let steps: [i64; 22] = [
        0,
        100_000_000,
        900_000_000,
        S,
        1_500_000_000,
        2 * S,
        59 * S,
        60 * S,
        61 * S,
        3599 * S,
        3600 * S,
        3601 * S,
        86_399 * S,
        86_400 * S,
        86_401 * S,
        28 * 86_400 * S,
        29 * 86_400 * S,
        30 * 86_400 * S,
        31 * 86_400 * S,
        365 * 86_400 * S,
        366 * 86_400 * S,
        7 * 86_400 * S + 3 * S,
    ];
    let nops = if ctx.thorough {
        rng.range(4, 120)
    } else {
        rng.range(4, 45)
    } as usize;
    let mut ops = Vec::new();
    let mut appended_restart = false;
    for _ in 0..nops {
        match rng.below(20) {
            0..=8 => ops.push(HOp::Write(*rng.pick(&LEVELS), rng.usize(30))),
            9..=14 => {
                // small steps dominate so that many writes share a period
                let st = if rng.chance(1, 2) {
                    *rng.pick(&steps[..9])
                } else {
                    *rng.pick(&steps)
                };
                ops.push(HOp::Advance(st));
            }
            15 => ops.push(HOp::Flush),
            16 => ops.push(if rng.chance(1, 3) { HOp::Reopen } else { HOp::Flush }),
            // (now and then the new file cannot be opened: the file keeps its start time)
            17 => ops.push(if rng.chance(1, 3) { HOp::TriggerFailingOpen } else { HOp::Trigger }),
            _ => {
                if rng.chance(1, 2) {
                    ops.push(HOp::Restart { append: true });
                    appended_restart = true;
                } else {
                    ops.push(HOp::Flush);
                }
            }
        }
    }
    let shape_base = format!(
        "{}|{}|{}|{}|tz{}|{}{}",
        if cfg.l2 { "L2" } else { "L1" },
        cfg.names.naming.label(),
        crit.label(),
        cfg.wmode.label(),
        tz_offset / 60,
        if cfg.use_utc { "utc" } else { "local" },
        if appended_restart { "|append-restart" } else { "" },
    );
    let mut res = CaseResult::new(shape_base.clone());
    let t0 = anchor_ns(rng);
    flw::install_virtual(t0);
    let mut hist = match Hist::start(cfg.clone()) {
        Ok(h) => h,
        Err(e) => {
            res.violate("build-failed", "C09/build-failed", e);
            flw::uninstall_virtual();
            return res;
        }
    };
    let facts = format!(
        "naming={}/age={}{}{}",
        cfg.names.naming.label(),
        age.label(),
        if cfg.use_utc && tz_offset != 0 {
            "/use_utc+tz-offset"
        } else {
            ""
        },
        if appended_restart { "/append-restart" } else { "" }
    );
    let mut comparisons = 0u64;
    let mut ok = true;
    let compare = |hist: &Hist, res: &mut CaseResult, when: &str| -> bool {
        match hist.observe() {
            Err(e) => {
                res.inconclusive(format!("cannot read directory: {e}"));
                false
            }
            Ok(obs) => {
                res.count("files_compared", obs.family.len() as u64);
                if !obs.foreign.is_empty() {
                    res.violate(
                        "foreign-file-created",
                        format!("C09/foreign-file-created/{facts}"),
                        format!("{when}: {:?} (family {:?})", obs.foreign, obs.names()),
                    );
                    return false;
                }
                match flw::compare_partition(&hist.cfg, &hist.model, &obs, false, true) {
                    Ok(()) => true,
                    Err((kind, detail)) => {
                        res.violate(
                            "partition-mismatch",
                            format!("C09/partition-{kind}/{facts}"),
                            format!("{when}: {detail}"),
                        );
                        false
                    }
                }
            }
        }
    };
    for (i, op) in ops.iter().enumerate() {
        if let Err(e) = hist.apply(op) {
            res.violate("op-error", format!("C09/op-error/{facts}"), format!("op {i} {op:?}: {e}"));
            ok = false;
            break;
        }
        if matches!(op, HOp::Flush) {
            comparisons += 1;
            if !compare(&hist, &mut res, &format!("after flush (op {i})")) {
                ok = false;
                break;
            }
        }
    }
    hist.shutdown();
    if ok {
        comparisons += 1;
        compare(&hist, &mut res, "after shutdown");
    }
    res.absorb_panics("C09", "age-rotation history");
    flw::uninstall_virtual();

    res.count("records", hist.records);
    res.count("comparisons", comparisons);
    res.count("rotations_by_age_or_size", hist.model.rotations_by_criterion);
    res.count("append_restarts", hist.restarts);
    res.nontrivial = hist.model.rotations_by_criterion >= 1 && comparisons >= 1;
    let bucket = match hist.model.rotations_by_criterion {
        0 => "r0",
        1..=3 => "r1-3",
        _ => "r4+",
    };
    res.shape = format!("{shape_base}|{bucket}");
    if ctx.case < 3 || res.verdict != Verdict::Held {
        res.sample = Some(json!({
            "config": cfg.to_json(),
            "t0": ctl::local_from_ns(t0).to_rfc3339(),
            "ops": ops.iter().take(40).map(|o| format!("{o:?}")).collect::<Vec<_>>(),
            "n_ops": ops.len(),
            "expected_files": hist.model.contents().iter().map(|s| json!({
                "started": ctl::local_from_ns(s.started_ns).to_rfc3339(), "len": s.content.len()
            })).collect::<Vec<_>>(),
        }));
    }
    res
}

/// Real clock, no hooks: Age::Second for ~3.3 s; records written well inside a second are
/// unambiguous; no file may hold unambiguous records of two seconds, and two neighbouring
/// unambiguous records of the same second must share a file.
fn real_time_case(ctx: &mut CaseCtx) -> CaseResult {
    let rng = &mut ctx.rng;
    let naming = match rng.below(4) {
        0 => NamingK::Numbers,
        1 => NamingK::NumbersDirect,
        2 => NamingK::Timestamps,
        _ => NamingK::TimestampsDirect,
    };
    let (names, _) = flw::gen_name_parts(rng, &ctx.dir, naming, false);
    let cfg = FlwCfg {
        names,
        use_ts: false,
        crit: Some(Crit::Age(AgeK::Second)),
        clean: Clean::Never,
        clean_bg: false,
        wmode: WMode::Direct,
        crlf: false,
        append: false,
        symlink: None,
        use_utc: false,
        max_level: log::LevelFilter::Trace,
        fmt: FmtK::Raw,
        l2: rng.chance(1, 2),
    };
    let mut res = CaseResult::new(format!(
        "realtime|{}|{}",
        if cfg.l2 { "L2" } else { "L1" },
        cfg.names.naming.label()
    ));
    ctl::uninstall();
    ctl::clock_unset();
    let mut driver = match Driver::build(&cfg) {
        Ok(d) => d,
        Err(e) => {
            res.violate("build-failed", "C09/build-failed", e);
            return res;
        }
    };
    // (seq, second-of-epoch, unambiguous)
    let mut recs: Vec<(u64, i64, bool)> = Vec::new();
    let start = std::time::Instant::now();
    let mut seq = 0u64;
    while start.elapsed() < std::time::Duration::from_millis(3300) {
        let before = Local::now();
        driver.write(log::Level::Info, &flw::msg_id(0, 0, seq, 8));
        let after = Local::now();
        let ms_b = before.nanosecond() / 1_000_000;
        let ms_a = after.nanosecond() / 1_000_000;
        let unamb = before.timestamp() == after.timestamp() && ms_b >= 30 && ms_a <= 970;
        recs.push((seq, before.timestamp(), unamb));
        seq += 1;
        std::thread::sleep(std::time::Duration::from_millis(37));
    }
    driver.shutdown();
    let obs = match family::observe(&cfg.names) {
        Ok(o) => o,
        Err(e) => {
            res.inconclusive(format!("cannot read directory: {e}"));
            return res;
        }
    };
    let mut file_of: std::collections::HashMap<u64, usize> = std::collections::HashMap::new();
    for (fi, f) in obs.family.iter().enumerate() {
        if let Ok(c) = &f.content {
            for line in String::from_utf8_lossy(c).lines() {
                if let Some((_, _, s)) = flw::parse_msg_id(line) {
                    file_of.insert(s, fi);
                }
            }
        }
    }
    let mut judged = 0u64;
    let facts = format!("realtime/naming={}", cfg.names.naming.label());
    let unamb: Vec<&(u64, i64, bool)> = recs.iter().filter(|r| r.2).collect();
    for r in &recs {
        if !file_of.contains_key(&r.0) {
            res.violate(
                "record-missing",
                format!("C09/record-missing/{facts}"),
                format!("record {} not found in any file {:?}", r.0, obs.names()),
            );
            return res;
        }
    }
    for a in &unamb {
        for b in &unamb {
            if a.0 < b.0 && a.1 != b.1 && file_of[&a.0] == file_of[&b.0] {
                res.violate(
                    "two-periods-in-one-file",
                    format!("C09/two-periods-in-one-file/{facts}"),
                    format!(
                        "records {} (second {}) and {} (second {}) share file {}",
                        a.0, a.1, b.0, b.1, obs.family[file_of[&a.0]].entry.name
                    ),
                );
                return res;
            }
        }
    }
    for w in recs.windows(2) {
        if w[0].2 && w[1].2 && w[0].1 == w[1].1 {
            judged += 1;
            if file_of[&w[0].0] != file_of[&w[1].0] {
                res.violate(
                    "rotation-within-period",
                    format!("C09/rotation-within-period/{facts}"),
                    format!(
                        "records {} and {} were both written inside second {} but are in files {} and {}",
                        w[0].0,
                        w[1].0,
                        w[0].1,
                        obs.family[file_of[&w[0].0]].entry.name,
                        obs.family[file_of[&w[1].0]].entry.name
                    ),
                );
                return res;
            }
        }
    }
    res.absorb_panics("C09", "real-time run");
    res.count("realtime_runs", 1);
    res.count("realtime_records", recs.len() as u64);
    res.count("realtime_unambiguous_records", unamb.len() as u64);
    res.count("realtime_same_period_pairs_judged", judged);
    res.count("realtime_files", obs.family.len() as u64);
    res.nontrivial = obs.family.len() >= 3 && judged >= 10;
    res.sample = Some(json!({
        "config": cfg.to_json(),
        "records": recs.len(),
        "files": obs.names(),
    }));
    res
}
