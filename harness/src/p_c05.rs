//! C05 — run-time specification changes take full effect; push/pop is an exact stack; a
//! rejected string changes neither the active specification nor the stack.

use crate::spec::{self, MSpec, RecWriter, Recorder};
use crate::util::{CaseCtx, CaseResult, Verdict};
use flexi_logger::Logger;
use log::LevelFilter;
use serde_json::json;

const MALFORMED: &[&str] = &[
    "a=b=c",
    "a=wrong",
    "info, crap=ugh",
    "a b=info",
    "a=info/x/y",
    "debug/[",
    "core = inf",
    "x=debug, y z",
];

#[derive(Clone, Debug)]
enum Op {
    Set(MSpec),
    Parse(MSpec),
    ParseBad(String),
    Push(MSpec),
    ParsePush(MSpec),
    ParsePushBad(String),
    Pop,
}
impl Op {
    fn label(&self) -> &'static str {
        match self {
            Op::Set(_) => "set_new_spec",
            Op::Parse(_) => "parse_new_spec",
            Op::ParseBad(_) => "parse_new_spec(malformed)",
            Op::Push(_) => "push_temp_spec",
            Op::ParsePush(_) => "parse_and_push_temp_spec",
            Op::ParsePushBad(_) => "parse_and_push_temp_spec(malformed)",
            Op::Pop => "pop_temp_spec",
        }
    }
}

pub fn run_case(ctx: &mut CaseCtx) -> CaseResult {
    let rng = &mut ctx.rng;
    let initial = spec::gen_mspec(rng, true, true);
    let sink = Recorder::default();
    let mut res = CaseResult::new("spec-history");
    let built = Logger::with(initial.to_real_via_builder())
        .log_to_writer(Box::new(RecWriter {
            rec: sink.clone(),
            ceiling: LevelFilter::Trace,
            honour_ceiling: false,
        }))
        .error_channel(crate::flw::error_channel())
        .build();
    let (boxed, mut handle) = match built {
        Ok(x) => x,
        Err(e) => {
            res.violate("build-failed", "C05/build-failed", format!("{e:?}"));
            return res;
        }
    };
    let mut active = initial.with_builder_default();
    let mut stack: Vec<MSpec> = Vec::new();
    let nops = rng.range(1, if ctx.thorough { 60 } else { 40 }) as usize;
    let mut script: Vec<String> = Vec::new();
    let mut all_specs: Vec<MSpec> = vec![active.clone()];
    let mut max_depth = 0usize;
    let mut n_bad = 0u64;
    let mut n_pop_empty = 0u64;
    let mut comparisons = 0u64;
    let mut failed_push_before = false;

    let compare = |res: &mut CaseResult,
                       active: &MSpec,
                       all: &[MSpec],
                       when: &str,
                       last: &str,
                       failed_push_before: bool|
     -> bool {
        let refs: Vec<&MSpec> = all.iter().rev().take(4).collect();
        let mut with_active = refs.clone();
        with_active.push(active);
        let targets = spec::grid_targets(&with_active);
        let msgs: Vec<String> = match &active.text {
            Some(t) => t.messages().into_iter().take(4).collect(),
            None => vec!["plain".to_string()],
        };
        let g = spec::check_grid(boxed.as_ref(), &sink, active, &targets, &msgs);
        res.count("grid_points", g.points);
        if let Some((kind, detail)) = g.mismatch {
            res.violate(
                &kind,
                format!(
                    "C05/{kind}/after-{last}{}",
                    if failed_push_before {
                        "/after-rejected-parse_and_push"
                    } else {
                        ""
                    }
                ),
                format!("{when}: active model {:?}: {detail}", active.entries),
            );
            return false;
        }
        true
    };

    let mut ok = true;
    for i in 0..nops {
        let op = match rng.below(14) {
            0..=1 => Op::Set(spec::gen_mspec(rng, true, true)),
            2..=3 => Op::Parse(spec::gen_mspec(rng, true, false)),
            4 => Op::ParseBad((*rng.pick(MALFORMED)).to_string()),
            5..=6 => Op::Push(spec::gen_mspec(rng, true, true)),
            7..=8 => Op::ParsePush(spec::gen_mspec(rng, true, false)),
            9 => Op::ParsePushBad((*rng.pick(MALFORMED)).to_string()),
            _ => Op::Pop,
        };
        let label = op.label();
        match &op {
            Op::Set(m) => {
                handle.set_new_spec(m.to_real_via_builder());
                active = m.with_builder_default();
                script.push(format!("set {:?}", m.entries));
            }
            Op::Parse(m) => {
                let s = m.to_spec_string(rng);
                if let Err(e) = handle.parse_new_spec(&s) {
                    res.violate(
                        "wellformed-spec-rejected",
                        "C05/wellformed-spec-rejected",
                        format!("op {i}: parse_new_spec({s:?}) returned {e:?}"),
                    );
                    ok = false;
                    break;
                }
                active = m.clone();
                script.push(format!("parse {s:?}"));
            }
            Op::ParseBad(s) => {
                n_bad += 1;
                if handle.parse_new_spec(s).is_ok() {
                    res.violate(
                        "malformed-spec-accepted",
                        "C05/malformed-spec-accepted/parse_new_spec",
                        format!("op {i}: parse_new_spec({s:?}) returned Ok"),
                    );
                    ok = false;
                    break;
                }
                script.push(format!("parse-bad {s:?}"));
            }
            Op::Push(m) => {
                handle.push_temp_spec(m.to_real_via_builder());
                stack.push(active.clone());
                active = m.with_builder_default();
                script.push(format!("push {:?}", m.entries));
            }
            Op::ParsePush(m) => {
                let s = m.to_spec_string(rng);
                if let Err(e) = handle.parse_and_push_temp_spec(&s) {
                    res.violate(
                        "wellformed-spec-rejected",
                        "C05/wellformed-spec-rejected",
                        format!("op {i}: parse_and_push_temp_spec({s:?}) returned {e:?}"),
                    );
                    ok = false;
                    break;
                }
                stack.push(active.clone());
                active = m.clone();
                script.push(format!("parse-push {s:?}"));
            }
            Op::ParsePushBad(s) => {
                n_bad += 1;
                if handle.parse_and_push_temp_spec(s).is_ok() {
                    res.violate(
                        "malformed-spec-accepted",
                        "C05/malformed-spec-accepted/parse_and_push_temp_spec",
                        format!("op {i}: returned Ok for {s:?}"),
                    );
                    ok = false;
                    break;
                }
                failed_push_before = true;
                script.push(format!("parse-push-bad {s:?}"));
            }
            Op::Pop => {
                handle.pop_temp_spec();
                match stack.pop() {
                    Some(prev) => active = prev,
                    None => n_pop_empty += 1,
                }
                script.push("pop".into());
            }
        }
        max_depth = max_depth.max(stack.len());
        all_specs.push(active.clone());
        comparisons += 1;
        if !compare(
            &mut res,
            &active,
            &all_specs,
            &format!("after op {i} ({label})"),
            label,
            failed_push_before,
        ) {
            ok = false;
            break;
        }
    }
    // drain: pop until the model's stack is empty and two more times
    if ok {
        let extra = stack.len() + 2;
        for j in 0..extra {
            handle.pop_temp_spec();
            if let Some(prev) = stack.pop() {
                active = prev;
            }
            comparisons += 1;
            if !compare(
                &mut res,
                &active,
                &all_specs,
                &format!("drain pop {j}"),
                "drain-pop",
                failed_push_before,
            ) {
                break;
            }
        }
    }
    drop(handle);
    drop(boxed);
    res.absorb_panics("C05", "reconfiguration history");
    res.count("operations", script.len() as u64);
    res.count("comparisons", comparisons);
    res.count("malformed_strings", n_bad);
    res.count("pops_on_empty_stack", n_pop_empty);
    res.nontrivial = script.len() >= 2 && comparisons >= 2;
    res.shape = format!(
        "ops{}|depth{}|{}|{}",
        match script.len() {
            0..=5 => "1-5",
            6..=15 => "6-15",
            _ => "16+",
        },
        max_depth.min(8),
        if n_bad > 0 { "malformed" } else { "-" },
        if n_pop_empty > 0 { "pop-empty" } else { "-" },
    );
    if ctx.case < 2 || res.verdict != Verdict::Held {
        res.sample = Some(json!({
            "initial": format!("{:?}", initial.entries),
            "script": script.iter().take(50).collect::<Vec<_>>(),
        }));
    }
    res
}
