//! C13 — brace targets, writer level ceilings and duplication route each record correctly.
//! Oracle: routing model (brace list -> set of writers, `_Default` + spec on the module path ->
//! default channel, ceilings, duplication thresholds) vs. recording writers, a FileLogWriter with
//! max_level, a SyslogWriter on a unix datagram socket, captured stderr/stdout of a child and the
//! error-channel file.

use crate::child::{self, ChildArgs};
use crate::flw;
use crate::rng::Rng;
use crate::spec::{self, RecWriter, Recorder};
use crate::util::{CaseCtx, CaseResult, Verdict, LEVELS};
use flexi_logger::writers::{
    FileLogWriter, SyslogConnection, SyslogFacility, SyslogLineHeader, SyslogWriter,
};
use flexi_logger::{Duplicate, FileSpec, LogSpecification, Logger};
use log::LevelFilter;
use serde_json::json;
use std::os::unix::net::UnixDatagram;

const NAMES: &[&str] = &["A", "B", "C", "F", "S", "X", "Y", "_Default"];

fn gen_list(rng: &mut Rng) -> Vec<&'static str> {
    let mut pool: Vec<&'static str> = NAMES.to_vec();
    for i in (1..pool.len()).rev() {
        let j = rng.usize(i + 1);
        pool.swap(i, j);
    }
    let n = rng.range(1, 5) as usize;
    pool.truncate(n);
    // now and then a name is listed twice: the writer is still "named in the list", once
    if rng.chance(1, 6) {
        let again = *rng.pick(&pool);
        let at = rng.usize(pool.len() + 1);
        pool.insert(at, again);
    }
    pool
}

pub fn run_case(ctx: &mut CaseCtx) -> CaseResult {
    if ctx.case % 6 == 5 {
        return dup_case(ctx);
    }
    let rng = &mut ctx.rng;
    // (a third of the specifications carries a text filter: it concerns the default channel only)
    let m = spec::gen_mspec(rng, true, false);
    let model = m.with_builder_default();
    let file_ceiling = *rng.pick(&spec::FILTERS);
    let syslog_ceiling = *rng.pick(&spec::FILTERS);
    let with_syslog = rng.chance(2, 3);
    let rfc3164 = rng.chance(1, 2);
    let mut res = CaseResult::new(format!(
        "routing|file<={file_ceiling}|{}",
        if with_syslog {
            format!("syslog<={syslog_ceiling}|{}", if rfc3164 { "3164" } else { "5424" })
        } else {
            "nosyslog".into()
        }
    ));
    let (ra, rb, rc, rd) = (
        Recorder::default(),
        Recorder::default(),
        Recorder::default(),
        Recorder::default(),
    );
    let mk = |r: &Recorder| {
        Box::new(RecWriter {
            rec: r.clone(),
            ceiling: LevelFilter::Trace,
            honour_ceiling: false,
        })
    };
    let fdir = ctx.dir.join("f");
    let fw = match FileLogWriter::builder(
        FileSpec::default()
            .directory(&fdir)
            .basename("routed")
            .suppress_timestamp(),
    )
    .format(flw::fmt_raw)
    .max_level(file_ceiling)
    .try_build()
    {
        Ok(w) => w,
        Err(e) => {
            res.violate("build-failed", "C13/build-failed", format!("{e:?}"));
            return res;
        }
    };
    let mut lg = Logger::with(m.to_real_via_builder())
        .log_to_writer(mk(&rd))
        .add_writer("A", mk(&ra))
        .add_writer("B", mk(&rb))
        .add_writer("C", mk(&rc))
        .add_writer("F", Box::new(fw))
        .error_channel(flw::error_channel());
    // syslog sink: a unix datagram socket bound by the harness
    let sock_path = ctx.dir.join("syslog.sock");
    let mut sink: Option<UnixDatagram> = None;
    if with_syslog {
        match UnixDatagram::bind(&sock_path) {
            Ok(s) => {
                let _ = s.set_nonblocking(true);
                match SyslogConnection::try_datagram(&sock_path) {
                    Ok(conn) => {
                        match SyslogWriter::builder(
                            conn,
                            if rfc3164 {
                                SyslogLineHeader::Rfc3164
                            } else {
                                SyslogLineHeader::Rfc5424("flmon".into())
                            },
                            SyslogFacility::LocalUse0,
                        )
                        .max_log_level(syslog_ceiling)
                        .format(flw::fmt_raw)
                        .build()
                        {
                            Ok(w) => {
                                lg = lg.add_writer("S", w);
                                sink = Some(s);
                            }
                            Err(e) => {
                                res.inconclusive(format!("syslog writer: {e}"));
                                return res;
                            }
                        }
                    }
                    Err(e) => {
                        res.inconclusive(format!("syslog connection: {e}"));
                        return res;
                    }
                }
            }
            Err(e) => {
                res.inconclusive(format!("cannot bind unix datagram socket: {e}"));
                return res;
            }
        }
    }
    let (boxed, handle) = match lg.build() {
        Ok(x) => x,
        Err(e) => {
            res.violate("build-failed", "C13/build-failed", format!("{e:?}"));
            return res;
        }
    };
    let _ = flw::take_error_channel();
    let max = log::max_level();
    // the gate must admit what the additional writers accept
    for (name, ceiling) in [("F", file_ceiling), ("S", syslog_ceiling)] {
        if (name != "S" || with_syslog) && ceiling > max {
            res.violate(
                "max-level-hides-writer",
                format!("C13/max-level-hides-writer/{name}"),
                format!("writer {name} accepts up to {ceiling}, log::max_level() = {max}"),
            );
        }
    }
    let modules: Vec<String> = {
        let mut v = spec::grid_targets(&[&model]);
        v.retain(|t| !t.is_empty());
        v.truncate(6);
        v.push("unrelated::mod".into());
        v
    };
    let n = rng.range(5, if ctx.thorough { 80 } else { 40 }) as usize;
    let mut seq = 0u64;
    let mut expected_file: Vec<String> = Vec::new();
    let mut expected_syslog: Vec<String> = Vec::new();
    let mut brace_records = 0u64;
    let mut got_syslog: Vec<String> = Vec::new();
    for i in 0..n {
        let lvl = *rng.pick(&LEVELS);
        let module = rng.pick(&modules).clone();
        let mut msg = flw::msg_id(ctx.case, 0, seq, rng.usize(12));
        if let Some(t) = &model.text {
            // messages that the text filter accepts and messages that it refuses
            let samples = t.messages();
            msg = format!("{msg} {}", rng.pick(&samples));
        }
        seq += 1;
        let brace = rng.chance(3, 4);
        let list = if brace { gen_list(rng) } else { Vec::new() };
        let target = if brace {
            format!("{{{}}}", list.join(","))
        } else {
            module.clone()
        };
        for r in [&ra, &rb, &rc, &rd] {
            r.take();
        }
        // the facade's enabled() query for this record (asked first; what it writes to the error
        // channel about unknown names is set aside)
        let enabled_answer = {
            let meta = log::Metadata::builder().level(lvl).target(&target).build();
            boxed.enabled(&meta)
        };
        let _ = flw::take_error_channel();
        if lvl <= max {
            spec::with_rec(lvl, &target, Some(&module), &msg, |rec| boxed.log(rec));
        }
        let errs = flw::take_error_channel();
        // drain the datagram sink right away (its queue is short; a full queue blocks send)
        if let Some(sk) = &sink {
            let mut buf = vec![0u8; 65536];
            while let Ok(nb) = sk.recv(&mut buf) {
                let text = String::from_utf8_lossy(&buf[..nb]).to_string();
                let id = text
                    .split(' ')
                    .rev()
                    .find(|t| flw::parse_msg_id(t.trim_end_matches('\0')).is_some())
                    .map(|t| t.trim_end_matches('\0').to_string())
                    .unwrap_or(text);
                got_syslog.push(id);
            }
        }
        // ------------------------------------------------------------ expectations
        let named = |x: &str| brace && list.contains(&x);
        let gate = lvl <= max;
        let delivered_anywhere = std::cell::Cell::new(false);
        let facts = if brace { "brace" } else { "plain" };
        for (name, r) in [("A", &ra), ("B", &rb), ("C", &rc)] {
            let got = r.take();
            if !got.is_empty() {
                delivered_anywhere.set(true);
            }
            let want = usize::from(named(name) && gate);
            let ok = got.len() == want && got.iter().all(|g| g.msg == msg && g.level == lvl);
            if !ok {
                res.violate(
                    "writer-delivery",
                    format!("C13/writer-delivery/{facts}/{}", if got.len() > want { "extra" } else { "missing" }),
                    format!(
                        "record {i} target {target:?} level {lvl}: writer {name} received {} record(s), expected {want}",
                        got.len()
                    ),
                );
            }
        }
        let mut delivered_somewhere = false;
        let want_default = gate
            && if brace {
                named("_Default") && model.delivers(lvl, &module, &msg)
            } else {
                model.delivers(lvl, &target, &msg)
            };
        let got_d = rd.take();
        if !got_d.is_empty() {
            delivered_somewhere = true;
        }
        if delivered_anywhere.get() {
            delivered_somewhere = true;
        }
        if named("F") && gate && lvl <= file_ceiling {
            delivered_somewhere = true;
        }
        if with_syslog && named("S") && gate && lvl <= syslog_ceiling {
            delivered_somewhere = true;
        }
        res.count("enabled_queries_checked", 1);
        if delivered_somewhere && !enabled_answer {
            res.violate(
                "enabled-false-for-written-record",
                format!("C13/enabled-false-for-written-record/{facts}"),
                format!(
                    "record {i} target {target:?} module {module:?} level {lvl}: enabled() answered false, but the record was written (spec {:?}, file ceiling {file_ceiling}, syslog ceiling {syslog_ceiling})",
                    model.entries
                ),
            );
        }
        if got_d.len() != usize::from(want_default) {
            res.violate(
                "default-channel",
                format!(
                    "C13/default-channel/{facts}/{}",
                    if got_d.len() > usize::from(want_default) { "extra" } else { "missing" }
                ),
                format!(
                    "record {i} target {target:?} module {module:?} level {lvl}: default channel received {}, expected {} (spec {:?})",
                    got_d.len(),
                    usize::from(want_default),
                    model.entries
                ),
            );
        }
        if named("F") && gate && lvl <= file_ceiling {
            expected_file.push(msg.clone());
        }
        if with_syslog && named("S") && gate && lvl <= syslog_ceiling {
            expected_syslog.push(msg.split(' ').next().unwrap_or("").to_string());
        }
        // unknown names are reported, and only they
        let unknown: Vec<&str> = list
            .iter()
            .copied()
            .filter(|x| *x == "X" || *x == "Y" || (*x == "S" && !with_syslog))
            .collect();
        if gate {
            for u in &unknown {
                if !errs.iter().any(|l| l.contains("WriterSpec") && l.contains(&format!("bad writer spec: {u}"))) {
                    res.violate(
                        "unknown-writer-not-reported",
                        "C13/unknown-writer-not-reported",
                        format!("record {i} target {target:?}: no error-channel line for {u}; lines: {errs:?}"),
                    );
                }
            }
            let spurious: Vec<&String> = errs
                .iter()
                .filter(|l| l.contains("ERRCODE") && !unknown.iter().any(|u| l.contains(&format!("bad writer spec: {u}"))))
                .collect();
            if !spurious.is_empty() {
                res.violate(
                    "spurious-error-report",
                    "C13/spurious-error-report",
                    format!("record {i} target {target:?}: {spurious:?}"),
                );
            }
        }
        if brace {
            brace_records += 1;
        }
        if res.verdict != Verdict::Held {
            break;
        }
    }
    handle.shutdown();
    drop(handle);
    drop(boxed);
    // the file behind writer F: exactly the expected ids, in order, none above the ceiling
    let fcontent = std::fs::read_to_string(fdir.join("routed.log")).unwrap_or_default();
    let got_file: Vec<String> = fcontent.lines().map(str::to_string).collect();
    if res.verdict == Verdict::Held && got_file != expected_file {
        res.violate(
            "file-writer-ceiling",
            format!(
                "C13/file-writer-routing/{}",
                if got_file.len() > expected_file.len() { "extra" } else { "missing-or-different" }
            ),
            format!(
                "FileLogWriter with max_level {file_ceiling}: expected {} records, file has {}",
                expected_file.len(),
                got_file.len()
            ),
        );
    }
    if let Some(s) = &sink {
        let got = got_syslog.clone();
        let _ = s;
        res.count("syslog_datagrams", got.len() as u64);
        if res.verdict == Verdict::Held && got != expected_syslog {
            res.violate(
                "syslog-writer-ceiling",
                format!(
                    "C13/syslog-writer-routing/{}",
                    if got.len() > expected_syslog.len() { "extra" } else { "missing-or-different" }
                ),
                format!(
                    "SyslogWriter with max_log_level {syslog_ceiling}: expected {} datagrams {:?}, received {} {:?}",
                    expected_syslog.len(),
                    expected_syslog.iter().take(3).collect::<Vec<_>>(),
                    got.len(),
                    got.iter().take(3).collect::<Vec<_>>()
                ),
            );
        }
    }
    res.absorb_panics("C13", "routing history");
    res.count("records", seq);
    res.count("brace_records", brace_records);
    res.count("file_writer_records", expected_file.len() as u64);
    res.nontrivial = brace_records >= 1;
    if ctx.case < 3 || res.verdict != Verdict::Held {
        res.sample = Some(json!({
            "spec": format!("{:?}", model.entries),
            "file_writer_ceiling": file_ceiling.to_string(),
            "syslog": if with_syslog { Some(syslog_ceiling.to_string()) } else { None },
        }));
    }
    res
}

// ------------------------------------------------------------------------------------------
// duplication to stderr/stdout incl. run-time adaptation — child process with captured streams

#[derive(Debug, Clone)]
enum DOp {
    Log(log::Level, u64),
    AdaptErr(u8),
    AdaptOut(u8),
}
#[derive(Debug, Clone)]
struct DupScenario {
    dup_err: u8,
    dup_out: u8,
    ops: Vec<DOp>,
    spec_level: LevelFilter,
}

fn dup_of(i: u8) -> Duplicate {
    match i % 7 {
        0 => Duplicate::None,
        1 => Duplicate::Error,
        2 => Duplicate::Warn,
        3 => Duplicate::Info,
        4 => Duplicate::Debug,
        5 => Duplicate::Trace,
        _ => Duplicate::All,
    }
}

fn gen_dup(rng: &mut Rng, thorough: bool) -> DupScenario {
    let n = rng.range(5, if thorough { 60 } else { 30 }) as usize;
    let mut ops = Vec::new();
    let mut seq = 0u64;
    for _ in 0..n {
        ops.push(match rng.below(8) {
            0 => DOp::AdaptErr(rng.below(7) as u8),
            1 => DOp::AdaptOut(rng.below(7) as u8),
            _ => {
                seq += 1;
                DOp::Log(*rng.pick(&LEVELS), seq)
            }
        });
    }
    DupScenario {
        dup_err: rng.below(7) as u8,
        dup_out: rng.below(7) as u8,
        ops,
        spec_level: *rng.pick(&[LevelFilter::Trace, LevelFilter::Debug, LevelFilter::Info, LevelFilter::Warn]),
    }
}

pub fn child_main(a: &ChildArgs) -> i32 {
    let mut ctx = child::ctx_of(a);
    let sc = gen_dup(&mut ctx.rng, ctx.thorough);
    let built = Logger::with(LogSpecification::from(sc.spec_level))
        .log_to_file(
            FileSpec::default()
                .directory(a.dir.join("main"))
                .basename("dup")
                .suppress_timestamp(),
        )
        .format(flw::fmt_raw)
        .duplicate_to_stderr(dup_of(sc.dup_err))
        .duplicate_to_stdout(dup_of(sc.dup_out))
        .error_channel(flexi_logger::ErrorChannel::File(a.dir.join("errchan.txt")))
        .start();
    let mut handle = match built {
        Ok(h) => h,
        Err(e) => {
            eprintln!("FLMON-CHILD start failed: {e:?}");
            return 3;
        }
    };
    for op in &sc.ops {
        match op {
            DOp::Log(l, s) => {
                // the real macro
                log::log!(target: "flmon::dup", *l, "{}", flw::msg_id(a.case, 0, *s, 6));
            }
            DOp::AdaptErr(d) => {
                let _ = handle.adapt_duplication_to_stderr(dup_of(*d));
            }
            DOp::AdaptOut(d) => {
                let _ = handle.adapt_duplication_to_stdout(dup_of(*d));
            }
        }
    }
    handle.shutdown();
    0
}

fn dup_case(ctx: &mut CaseCtx) -> CaseResult {
    let sc = gen_dup(&mut ctx.rng, ctx.thorough);
    let mut res = CaseResult::new(format!(
        "duplication|err{}|out{}|spec{}",
        sc.dup_err % 7,
        sc.dup_out % 7,
        sc.spec_level
    ));
    let out = match child::spawn(&child::Spawn {
        ctx,
        role: "dup",
        extra: vec![],
        env: vec![],
        timeout: std::time::Duration::from_secs(20),
        tag: "dup",
        cwd: None,
        kill_after: None,
    }) {
        Ok(o) => o,
        Err(e) => {
            res.inconclusive(format!("cannot spawn child: {e}"));
            return res;
        }
    };
    if !out.clean_exit() {
        res.violate(
            "child-failed",
            "C13/duplication-child-failed",
            format!(
                "{}; stderr: {}",
                out.describe(),
                String::from_utf8_lossy(&out.stderr[out.stderr.len().saturating_sub(300)..])
            ),
        );
        return res;
    }
    let (mut de, mut dout) = (sc.dup_err, sc.dup_out);
    let (mut want_e, mut want_o, mut want_f): (Vec<String>, Vec<String>, Vec<String>) =
        (Vec::new(), Vec::new(), Vec::new());
    let mut adapted = false;
    for op in &sc.ops {
        match op {
            DOp::Log(l, s) => {
                if *l <= sc.spec_level {
                    let m = flw::msg_id(ctx.case, 0, *s, 6);
                    want_f.push(m.clone());
                    if crate::p_c20::dup_admits(de, *l) {
                        want_e.push(m.clone());
                    }
                    if crate::p_c20::dup_admits(dout, *l) {
                        want_o.push(m);
                    }
                }
            }
            DOp::AdaptErr(d) => {
                de = *d;
                adapted = true;
            }
            DOp::AdaptOut(d) => {
                dout = *d;
                adapted = true;
            }
        }
    }
    let lines = |b: &[u8]| -> Vec<String> {
        String::from_utf8_lossy(b).lines().map(str::to_string).collect()
    };
    let got_e = lines(&out.stderr);
    let got_o = lines(&out.stdout);
    let got_f = lines(&std::fs::read(ctx.dir.join("main").join("dup.log")).unwrap_or_default());
    let facts = if adapted { "after-adapt" } else { "configured" };
    for (which, got, want) in [
        ("stderr", &got_e, &want_e),
        ("stdout", &got_o, &want_o),
        ("file", &got_f, &want_f),
    ] {
        res.count(&format!("{which}_lines_checked"), got.len() as u64);
        if got != want {
            res.violate(
                "duplication",
                format!(
                    "C13/duplication/{which}/{facts}/{}",
                    if got.len() > want.len() { "extra" } else { "missing-or-different" }
                ),
                format!(
                    "{which}: expected {} lines, captured {} (scenario err={} out={} spec={})",
                    want.len(),
                    got.len(),
                    sc.dup_err % 7,
                    sc.dup_out % 7,
                    sc.spec_level
                ),
            );
        }
    }
    res.count("child_runs", 1);
    res.nontrivial = !want_f.is_empty();
    if ctx.case < 12 || res.verdict != Verdict::Held {
        res.sample = Some(json!({"scenario": format!("{sc:?}")}));
    }
    res
}
