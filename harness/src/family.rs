//! Independent parser for the file family of a logger, written from the `FileSpec` / `Naming`
//! documentation (DESIGN Appendix A) — deliberately not sharing code with
//! `file_spec.rs` / `infix_filter.rs`.

use chrono::{NaiveDate, NaiveDateTime};
use std::io::Read;
use std::path::{Path, PathBuf};

pub const STD_TS_FMT: &str = "r%Y-%m-%d_%H-%M-%S";
pub const CURRENT: &str = "rCURRENT";

#[derive(Clone, Debug, PartialEq, Eq)]
pub enum NamingK {
    /// no rotation: exactly one file, no infix
    NoRotation,
    Numbers,
    NumbersDirect,
    Timestamps,
    TimestampsDirect,
    /// `Naming::TimestampsCustomFormat`
    Custom { fmt: String, current: Option<String> },
}
impl NamingK {
    pub fn is_direct(&self) -> bool {
        matches!(
            self,
            NamingK::NumbersDirect | NamingK::TimestampsDirect | NamingK::Custom { current: None, .. }
        )
    }
    pub fn is_numbers(&self) -> bool {
        matches!(self, NamingK::Numbers | NamingK::NumbersDirect)
    }
    pub fn is_timestamps(&self) -> bool {
        matches!(
            self,
            NamingK::Timestamps | NamingK::TimestampsDirect | NamingK::Custom { .. }
        )
    }
    pub fn ts_fmt(&self) -> Option<&str> {
        match self {
            NamingK::Timestamps | NamingK::TimestampsDirect => Some(STD_TS_FMT),
            NamingK::Custom { fmt, .. } => Some(fmt),
            _ => None,
        }
    }
    /// the infix of the current file for namings that have one
    pub fn current_infix(&self) -> Option<&str> {
        match self {
            NamingK::Numbers | NamingK::Timestamps => Some(CURRENT),
            NamingK::Custom { current: Some(c), .. } => Some(c),
            _ => None,
        }
    }
    pub fn label(&self) -> &'static str {
        match self {
            NamingK::NoRotation => "norot",
            NamingK::Numbers => "Numbers",
            NamingK::NumbersDirect => "NumbersDirect",
            NamingK::Timestamps => "Timestamps",
            NamingK::TimestampsDirect => "TimestampsDirect",
            NamingK::Custom { current: Some(_), .. } => "CustomCur",
            NamingK::Custom { current: None, .. } => "CustomDirect",
        }
    }
}

#[derive(Clone, Debug)]
pub struct NameCfg {
    pub dir: PathBuf,
    pub basename: String,
    pub discr: Option<String>,
    /// the start-time part, as the one string the process is expected to use (if configured)
    pub start_ts: Option<String>,
    pub suffix: Option<String>,
    pub naming: NamingK,
}

#[derive(Clone, Debug, PartialEq, Eq, PartialOrd, Ord)]
pub enum Kind {
    /// numbered rotated file
    Number(u64),
    /// timestamped rotated file: (naive local seconds, restart counter: -1 = none)
    Ts(i64, i64),
    /// file without rotation
    Plain,
    /// current file of an rCURRENT-style naming (sorts last)
    Current,
}

#[derive(Clone, Debug)]
pub struct Entry {
    pub name: String,
    pub kind: Kind,
    pub gz: bool,
    pub infix: String,
}

impl NameCfg {
    pub fn fixed(&self) -> String {
        // a separator goes in front of a part only if something precedes it (an empty
        // discriminant behind an empty basename therefore leaves no trace at all)
        let mut name = self.basename.clone();
        for part in [&self.discr, &self.start_ts].into_iter().flatten() {
            if !name.is_empty() {
                name.push('_');
            }
            name.push_str(part);
        }
        name
    }

    /// documented composition: [basename][_discr][_starttime][_infix][.suffix]
    pub fn compose(&self, infix: &str) -> String {
        let mut name = self.fixed();
        if !infix.is_empty() {
            if !name.is_empty() {
                name.push('_');
            }
            name.push_str(infix);
        }
        if let Some(s) = &self.suffix {
            name.push('.');
            name.push_str(s);
        }
        name
    }

    pub fn path(&self, infix: &str) -> PathBuf {
        self.dir.join(self.compose(infix))
    }

    fn parse_infix(&self, infix: &str) -> Option<Kind> {
        match &self.naming {
            NamingK::NoRotation => {
                if infix.is_empty() {
                    Some(Kind::Plain)
                } else {
                    None
                }
            }
            NamingK::Numbers | NamingK::NumbersDirect => {
                if infix == CURRENT {
                    return if self.naming == NamingK::Numbers {
                        Some(Kind::Current)
                    } else {
                        None
                    };
                }
                let digits = infix.strip_prefix('r')?;
                if digits.len() >= 5 && digits.bytes().all(|b| b.is_ascii_digit()) {
                    digits.parse::<u64>().ok().map(Kind::Number)
                } else {
                    None
                }
            }
            NamingK::Timestamps | NamingK::TimestampsDirect | NamingK::Custom { .. } => {
                if let Some(c) = self.naming.current_infix() {
                    if infix == c {
                        return Some(Kind::Current);
                    }
                }
                let fmt = self.naming.ts_fmt().unwrap();
                let (ts_part, restart) = match infix.find(".restart-") {
                    Some(i) => {
                        let num = &infix[i + 9..];
                        if num.len() != 4 || !num.bytes().all(|b| b.is_ascii_digit()) {
                            return None;
                        }
                        (&infix[..i], num.parse::<i64>().ok()?)
                    }
                    None => (infix, -1),
                };
                parse_ts(ts_part, fmt).map(|secs| Kind::Ts(secs, restart))
            }
        }
    }

    /// Classifies a directory entry name; `None` = foreign.
    pub fn classify(&self, name: &str) -> Option<Entry> {
        let (stem, gz) = match name.strip_suffix(".gz") {
            Some(s) if self.naming != NamingK::NoRotation && self.suffix.as_deref() != Some("gz") => {
                (s, true)
            }
            _ => (name, false),
        };
        let stem = match &self.suffix {
            Some(sfx) => stem.strip_suffix(&format!(".{sfx}"))?,
            None => stem,
        };
        let fixed = self.fixed();
        let infix = if fixed.is_empty() {
            stem
        } else if stem == fixed {
            ""
        } else {
            stem.strip_prefix(&format!("{fixed}_"))?
        };
        let kind = self.parse_infix(infix)?;
        if gz && matches!(kind, Kind::Current | Kind::Plain) {
            return None;
        }
        Some(Entry {
            name: name.to_string(),
            kind,
            gz,
            infix: infix.to_string(),
        })
    }
}

/// formatting with a format the value cannot serve (e.g. %H on a date) is an error, not a panic
fn try_format(d: impl std::fmt::Display) -> Option<String> {
    use std::fmt::Write;
    let mut out = String::new();
    write!(&mut out, "{d}").ok()?;
    Some(out)
}

pub fn parse_ts(s: &str, fmt: &str) -> Option<i64> {
    if let Ok(dt) = NaiveDateTime::parse_from_str(s, fmt) {
        // re-format must reproduce the text (rejects sloppy parses such as missing padding)
        if try_format(dt.format(fmt)).as_deref() == Some(s) {
            return Some(dt.and_utc().timestamp());
        }
        return None;
    }
    if let Ok(d) = NaiveDate::parse_from_str(s, fmt) {
        if try_format(d.format(fmt)).as_deref() == Some(s) {
            return Some(d.and_hms_opt(0, 0, 0)?.and_utc().timestamp());
        }
    }
    None
}

#[derive(Clone, Debug)]
pub struct FileObs {
    pub entry: Entry,
    pub raw_len: u64,
    /// content (gunzipped where applicable); `Err` if a .gz could not be decoded
    pub content: Result<Vec<u8>, String>,
}

#[derive(Clone, Debug, Default)]
pub struct DirObs {
    /// family files, oldest → newest, current last
    pub family: Vec<FileObs>,
    pub foreign: Vec<String>,
    pub symlinks: Vec<(String, PathBuf)>,
    pub subdirs: Vec<String>,
}

pub fn gunzip(bytes: &[u8]) -> Result<Vec<u8>, String> {
    let mut d = flate2::read::GzDecoder::new(bytes);
    let mut out = Vec::new();
    d.read_to_end(&mut out).map_err(|e| e.to_string())?;
    Ok(out)
}

/// Reads the directory and classifies every entry. Direct namings have no `Current` kind: their
/// newest file is the current one.
pub fn observe(cfg: &NameCfg) -> std::io::Result<DirObs> {
    observe_in(cfg, &cfg.dir)
}

pub fn observe_in(cfg: &NameCfg, dir: &Path) -> std::io::Result<DirObs> {
    let mut obs = DirObs::default();
    let mut names: Vec<(String, std::fs::FileType)> = Vec::new();
    for e in std::fs::read_dir(dir)? {
        let e = e?;
        names.push((e.file_name().to_string_lossy().to_string(), e.file_type()?));
    }
    names.sort_by(|a, b| a.0.cmp(&b.0));
    for (name, ft) in names {
        let p = dir.join(&name);
        if ft.is_symlink() {
            obs.symlinks
                .push((name.clone(), std::fs::read_link(&p).unwrap_or_default()));
            continue;
        }
        if ft.is_dir() {
            obs.subdirs.push(name);
            continue;
        }
        if !ft.is_file() {
            // a FIFO, a socket, a device: never a log file, whatever it is called (and not to be read)
            obs.foreign.push(name);
            continue;
        }
        match cfg.classify(&name) {
            None => obs.foreign.push(name),
            Some(entry) => {
                let raw = std::fs::read(&p)?;
                let raw_len = raw.len() as u64;
                let content = if entry.gz { gunzip(&raw) } else { Ok(raw) };
                obs.family.push(FileObs {
                    entry,
                    raw_len,
                    content,
                });
            }
        }
    }
    obs.family
        .sort_by(|a, b| (a.entry.kind.clone(), a.entry.gz).cmp(&(b.entry.kind.clone(), b.entry.gz)));
    // gz twin sorts after its plain sibling by the tuple above; callers that care detect twins
    Ok(obs)
}

impl DirObs {
    pub fn stream(&self) -> Result<Vec<u8>, String> {
        let mut out = Vec::new();
        for f in &self.family {
            match &f.content {
                Ok(c) => out.extend_from_slice(c),
                Err(e) => return Err(format!("{}: {e}", f.entry.name)),
            }
        }
        Ok(out)
    }
    pub fn names(&self) -> Vec<String> {
        self.family.iter().map(|f| f.entry.name.clone()).collect()
    }
    /// true if two family files share the same chronological key (plain + .gz twin)
    pub fn has_twins(&self) -> bool {
        self.family
            .windows(2)
            .any(|w| w[0].entry.kind == w[1].entry.kind)
    }
}
