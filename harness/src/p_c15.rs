//! C15 — file contents do not depend on the write mode; raw byte chunks pass unchanged.
//! Oracle: differential across write modes with Direct as reference; chunk stream byte-equality.

use crate::ctl;
use crate::family::{self, NamingK};
use crate::flw::{self, Clean, Crit, Driver, FlwCfg, FmtK, WMode};
use crate::util::{CaseCtx, CaseResult, Verdict, LEVELS};
use flexi_logger::writers::{ArcFileLogWriter, FileLogWriterHandle};
use serde_json::json;
use std::io::Write;

#[derive(Clone, Debug)]
enum Op {
    Write(log::Level, usize),
    Trigger,
    Flush,
    /// reopen_output() with the file in place: must not change what ends up in which file
    Reopen,
}

fn modes(rng: &mut crate::rng::Rng, with_flusher: bool) -> Vec<WMode> {
    let mut v = vec![
        WMode::Direct,
        WMode::BufDont(*rng.pick(&[1usize, 16, 100, 8192])),
        WMode::Async {
            pool: *rng.pick(&[1usize, 2, 8, 50]),
            msg: *rng.pick(&[4usize, 8, 64, 200]),
            flush_ms: 0,
        },
    ];
    if with_flusher {
        // the parameterless variants (documented defaults) take part as well
        if rng.chance(1, 3) {
            v.push(WMode::Async { pool: 50, msg: 200, flush_ms: 1000 });
            v.push(WMode::BufFlush(8192, 1000));
        }
        v.push(WMode::BufFlush(*rng.pick(&[7usize, 64]), 5));
    } else {
        v.push(WMode::SupportCapture);
    }
    v
}

fn snapshot(cfg: &FlwCfg) -> Result<Vec<(String, Vec<u8>)>, String> {
    let obs = family::observe(&cfg.names).map_err(|e| e.to_string())?;
    let mut v = Vec::new();
    for f in &obs.family {
        v.push((f.entry.name.clone(), f.content.clone()?));
    }
    for n in &obs.foreign {
        v.push((format!("<foreign>{n}"), Vec::new()));
    }
    Ok(v)
}

fn describe(v: &[(String, Vec<u8>)]) -> String {
    v.iter()
        .map(|(n, c)| format!("{n}:{}", c.len()))
        .collect::<Vec<_>>()
        .join(", ")
}

pub fn run_case(ctx: &mut CaseCtx) -> CaseResult {
    if ctx.case % 2 == 1 {
        return chunk_case(ctx);
    }
    let rng = &mut ctx.rng;
    let rotation = !rng.chance(1, 5);
    let naming = if rotation {
        flw::gen_naming(rng, true)
    } else {
        NamingK::NoRotation
    };
    let crit = if rotation {
        Some(Crit::Size(*rng.pick(&[0u64, 10, 50, 200, 1000])))
    } else {
        None
    };
    let base_dir = ctx.dir.clone();
    let (mut names, _) = flw::gen_name_parts(rng, &base_dir, naming, false);
    if !rotation && names.fixed().is_empty() {
        names.basename = "solo".into();
    }
    let slow_writer = rng.chance(1, 2);
    let crlf = rng.chance(1, 3);
    let fmt = *rng.pick(&[FmtK::Raw, FmtK::Raw, FmtK::Default]);
    let l2 = rng.chance(1, 4);
    let nops = rng.range(3, if ctx.thorough { 150 } else { 60 }) as usize;
    let mut ops = Vec::new();
    let mut has_trigger = false;
    let triggers_allowed = rng.chance(3, 10);
    for _ in 0..nops {
        ops.push(match rng.below(14) {
            0 if rotation && triggers_allowed => {
                has_trigger = true;
                Op::Trigger
            }
            1..=2 => Op::Flush,
            3 if rng.chance(1, 3) => Op::Reopen,
            _ => Op::Write(
                *rng.pick(&LEVELS),
                *rng.pick(&[0usize, 1, 3, 9, 15, 16, 17, 40, 63, 64, 65, 99, 100, 101, 250, 9000]),
            ),
        });
    }
    let mode_list = modes(rng, ctx.case % 10 == 4);
    let shape_base = format!(
        "records|{}|{}|{}|{}|{:?}|{}|{}",
        if l2 { "L2" } else { "L1" },
        names.naming.label(),
        if rotation { "rot" } else { "norot" },
        if crlf { "CRLF" } else { "LF" },
        fmt,
        if slow_writer { "slow-writer" } else { "-" },
        if has_trigger { "trigger" } else { "-" },
    );
    let mut res = CaseResult::new(shape_base);
    let t0 = flw::base_time_ns(rng);
    let mut reference: Option<Vec<(String, Vec<u8>)>> = None;
    let mut compared = 0u64;
    for (mi, mode) in mode_list.iter().enumerate() {
        let dir = base_dir.join(format!("m{mi}"));
        let _ = std::fs::create_dir_all(&dir);
        let mut n = names.clone();
        n.dir = dir;
        let cfg = FlwCfg {
            names: n,
            use_ts: false,
            crit,
            clean: Clean::Never,
            clean_bg: false,
            wmode: *mode,
            crlf,
            append: false,
            symlink: None,
            use_utc: false,
            max_level: log::LevelFilter::Trace,
            fmt,
            l2,
        };
        flw::install_virtual(t0);
        if slow_writer {
            ctl::with_ctl(|c| {
                c.delays
                    .push(("async_recv".into(), "async_file_writer".into(), 150));
            });
        }
        let mut driver = match Driver::build(&cfg) {
            Ok(d) => d,
            Err(e) => {
                res.violate("build-failed", "C15/build-failed", e);
                flw::uninstall_virtual();
                return res;
            }
        };
        let mut seq = 0u64;
        for op in &ops {
            match op {
                Op::Write(l, len) => {
                    driver.write(*l, &flw::msg_exact(seq, *len));
                    seq += 1;
                }
                Op::Trigger => {
                    let _ = driver.rotate();
                }
                Op::Flush => driver.flush(),
                Op::Reopen => {
                    let _ = driver.reopen();
                }
            }
        }
        driver.shutdown();
        flw::uninstall_virtual();
        res.count("mode_runs", 1);
        let snap = match snapshot(&cfg) {
            Ok(s) => s,
            Err(e) => {
                res.violate(
                    "unreadable",
                    format!("C15/unreadable/{}", mode.label()),
                    e,
                );
                return res;
            }
        };
        match &reference {
            None => reference = Some(snap),
            Some(r) => {
                compared += 1;
                res.count("files_compared", snap.len() as u64);
                if r != &snap {
                    let facts = if mode.is_async() && has_trigger {
                        "Async/explicit-rotation".to_string()
                    } else {
                        format!("{}/naming={}", mode.label(), cfg.names.naming.label())
                    };
                    res.violate(
                        "contents-differ",
                        format!("C15/contents-differ/{facts}"),
                        format!(
                            "Direct gives [{}] but {:?} gives [{}]",
                            describe(r),
                            mode,
                            describe(&snap)
                        ),
                    );
                }
            }
        }
    }
    res.absorb_panics("C15", "write-mode differential");
    res.count("records", ops.iter().filter(|o| matches!(o, Op::Write(..))).count() as u64);
    res.count("mode_comparisons", compared);
    let nfiles = reference.as_ref().map(Vec::len).unwrap_or(0);
    res.nontrivial = compared >= 2 && nfiles >= 1;
    res.shape = format!(
        "{}|{}",
        res.shape,
        match nfiles {
            0..=1 => "f1",
            2..=5 => "f2-5",
            _ => "f6+",
        }
    );
    if ctx.case < 2 || res.verdict != Verdict::Held {
        res.sample = Some(json!({
            "names": format!("{names:?}"),
            "crit": format!("{crit:?}"),
            "modes": mode_list.iter().map(|m| format!("{m:?}")).collect::<Vec<_>>(),
            "slow_async_writer": slow_writer,
            "ops": ops.iter().take(50).map(|o| format!("{o:?}")).collect::<Vec<_>>(),
            "n_ops": ops.len(),
            "reference_files": reference.as_ref().map(|r| describe(r)),
        }));
    }
    res
}

/// raw byte chunks through `ArcFileLogWriter: io::Write`
fn chunk_case(ctx: &mut CaseCtx) -> CaseResult {
    let rng = &mut ctx.rng;
    let rotation = rng.chance(1, 2);
    let naming = if rotation {
        flw::gen_naming(rng, false)
    } else {
        NamingK::NoRotation
    };
    let crit = if rotation {
        Some(Crit::Size(*rng.pick(&[0u64, 5, 40, 300])))
    } else {
        None
    };
    let base_dir = ctx.dir.clone();
    let (mut names, _) = flw::gen_name_parts(rng, &base_dir, naming, false);
    if !rotation && names.fixed().is_empty() {
        names.basename = "solo".into();
    }
    // the one-byte chunks of this case: a window of 16 byte values (all 256 over 16 cases)
    let window = ((ctx.case / 2) % 16) as u8;
    let slow_writer = rng.chance(1, 2);
    let mut chunks: Vec<Vec<u8>> = Vec::new();
    let n = rng.range(5, if ctx.thorough { 120 } else { 50 }) as usize;
    let mut single_idx = 0u8;
    for _ in 0..n {
        let c: Vec<u8> = match rng.below(10) {
            0 => Vec::new(),
            1..=3 => {
                let b = window * 16 + (single_idx % 16);
                single_idx = single_idx.wrapping_add(1);
                vec![b]
            }
            4 => (0..rng.usize(30)).map(|_| (rng.next() & 0xff) as u8).collect(),
            5 => {
                let mut v: Vec<u8> = flw::msg_exact(rng.next() % 1000, rng.usize(40)).into_bytes();
                v.push(b'\n');
                v
            }
            6 => flw::msg_exact(rng.next() % 1000, rng.usize(20)).into_bytes(), // no line ending
            7 => (0..(9000 + rng.usize(4000))).map(|i| (i % 251) as u8).collect(),
            8 => vec![b'\n'],
            _ => (0..rng.usize(300)).map(|i| b'a' + (i % 26) as u8).collect(),
        };
        chunks.push(c);
    }
    // make sure the whole window is present
    for i in 0..16u8 {
        if !chunks.iter().any(|c| c.len() == 1 && c[0] == window * 16 + i) {
            let pos = rng.usize(chunks.len() + 1);
            chunks.insert(pos, vec![window * 16 + i]);
        }
    }
    let expected_stream: Vec<u8> = chunks.iter().flatten().copied().collect();
    let mode_list = modes(rng, false);
    let shape_base = format!(
        "chunks|{}|{}|window{:02x}|{}",
        names.naming.label(),
        if rotation { "rot" } else { "norot" },
        window * 16,
        if slow_writer { "slow-writer" } else { "-" },
    );
    let mut res = CaseResult::new(shape_base);
    let t0 = flw::base_time_ns(rng);
    let mut reference: Option<Vec<(String, Vec<u8>)>> = None;
    let mut compared = 0u64;
    let has_f = chunks.iter().any(|c| c.as_slice() == b"F");
    let has_s = chunks.iter().any(|c| c.as_slice() == b"S");
    for (mi, mode) in mode_list.iter().enumerate() {
        let dir = base_dir.join(format!("m{mi}"));
        let _ = std::fs::create_dir_all(&dir);
        let mut nm = names.clone();
        nm.dir = dir;
        let cfg = FlwCfg {
            names: nm,
            use_ts: false,
            crit,
            clean: Clean::Never,
            clean_bg: false,
            wmode: *mode,
            crlf: false,
            append: false,
            symlink: None,
            use_utc: false,
            max_level: log::LevelFilter::Trace,
            fmt: FmtK::Raw,
            l2: false,
        };
        flw::install_virtual(t0);
        if slow_writer {
            ctl::with_ctl(|c| {
                c.delays
                    .push(("async_recv".into(), "async_file_writer".into(), 100));
            });
        }
        let built: Result<(ArcFileLogWriter, FileLogWriterHandle), _> =
            cfg.flw_builder().try_build_with_handle();
        let (mut w, handle) = match built {
            Ok(x) => x,
            Err(e) => {
                res.violate("build-failed", "C15/build-failed", format!("{e:?}"));
                flw::uninstall_virtual();
                return res;
            }
        };
        let mut write_errors = 0u64;
        for c in &chunks {
            // io::Write::write may be called with any buffer; the writer takes whole chunks
            match w.write(c) {
                Ok(n) if n == c.len() => {}
                Ok(_) | Err(_) => write_errors += 1,
            }
        }
        let _ = w.flush();
        drop(handle); // FileLogWriterHandle::drop shuts the writer down
        drop(w);
        flw::uninstall_virtual();
        res.count("mode_runs", 1);
        res.count("chunks_written", chunks.len() as u64);
        let facts = if mode.is_async() && has_f {
            "Async/one-byte-chunk-F".to_string()
        } else if mode.is_async() && has_s {
            "Async/one-byte-chunk-S".to_string()
        } else {
            format!("{}/naming={}", mode.label(), cfg.names.naming.label())
        };
        let snap = match snapshot(&cfg) {
            Ok(s) => s,
            Err(e) => {
                res.violate("unreadable", format!("C15/unreadable/{facts}"), e);
                return res;
            }
        };
        let stream: Vec<u8> = snap.iter().flat_map(|(_, c)| c.iter().copied()).collect();
        res.count("bytes_compared", stream.len() as u64);
        if let Some(d) = flw::diff_bytes(&expected_stream, &stream) {
            res.violate(
                "chunk-stream-changed",
                format!("C15/chunk-stream-changed/{facts}"),
                format!(
                    "{mode:?}: the concatenation of the chunks did not arrive unchanged ({write_errors} write errors): {d}"
                ),
            );
            continue;
        }
        match &reference {
            None => reference = Some(snap),
            Some(r) => {
                compared += 1;
                if r != &snap {
                    res.violate(
                        "contents-differ",
                        format!("C15/chunk-files-differ/{facts}"),
                        format!(
                            "Direct gives [{}] but {:?} gives [{}]",
                            describe(r),
                            mode,
                            describe(&snap)
                        ),
                    );
                }
            }
        }
    }
    res.absorb_panics("C15", "chunk differential");
    res.count("mode_comparisons", compared);
    res.add_to_set("one_byte_chunk_windows", format!("{:02x}", window * 16));
    res.nontrivial = compared >= 2;
    if ctx.case < 3 || res.verdict != Verdict::Held {
        res.sample = Some(json!({
            "names": format!("{names:?}"),
            "crit": format!("{crit:?}"),
            "modes": mode_list.iter().map(|m| format!("{m:?}")).collect::<Vec<_>>(),
            "chunk_lengths": chunks.iter().take(60).map(Vec::len).collect::<Vec<_>>(),
            "one_byte_window": format!("0x{:02x}..0x{:02x}", window * 16, window * 16 + 15),
        }));
    }
    res
}
