//! C08 — size criterion: rotate exactly when the current file already exceeds the limit.
//! Oracle: exact partition of the record sequence into files (rotation-partition model).

use crate::flw::{self, Clean, Crit, FlwCfg, FmtK, HOp, Hist, WMode};
use crate::util::{CaseCtx, CaseResult, Verdict, LEVELS};
use serde_json::json;

pub fn run_case(ctx: &mut CaseCtx) -> CaseResult {
    let rng = &mut ctx.rng;
    let n: u64 = *rng.pick(&[0u64, 1, 2, 10, 100, 1000]);
    let age_or_size = rng.chance(1, 5);
    let crit = if age_or_size {
        // the age part stays inactive: the virtual clock is frozen
        Crit::AgeOrSize(
            *rng.pick(&[flw::AgeK::Second, flw::AgeK::Minute, flw::AgeK::Day]),
            n,
        )
    } else {
        Crit::Size(n)
    };
    let naming = flw::gen_naming(rng, true);
    let (names, _) = flw::gen_name_parts(rng, &ctx.dir, naming, false);
    let nn = n as usize;
    let caps = [1usize, nn.saturating_sub(1).max(1), nn.max(1), nn + 1, 64, 8192];
    let wmode = match rng.below(10) {
        0..=2 => WMode::Direct,
        3..=6 => WMode::BufDont(*rng.pick(&caps)),
        7 => {
            if ctx.case % 5 == 0 {
                WMode::BufFlush(*rng.pick(&caps), *rng.pick(&[5u64, 1000]))
            } else {
                WMode::BufDont(*rng.pick(&caps))
            }
        }
        _ => WMode::Async {
            pool: *rng.pick(&[1usize, 2, 8]),
            msg: *rng.pick(&[8usize, 64]),
            flush_ms: if ctx.case % 6 == 1 { 3 } else { 0 },
        },
    };
    let crlf = rng.chance(1, 3);
    let pre = rng.chance(1, 3);
    let cfg = FlwCfg {
        names,
        use_ts: false,
        crit: Some(crit),
        clean: Clean::Never,
        clean_bg: false,
        wmode,
        crlf,
        append: pre || rng.chance(1, 3),
        symlink: None,
        use_utc: false,
        max_level: log::LevelFilter::Trace,
        fmt: FmtK::Raw,
        l2: rng.chance(1, 5),
    };
    let le = if crlf { 2 } else { 1 };
    // lengths are chosen for the whole line (message + line ending)
    let line_lens = [0usize, 1, nn.saturating_sub(1), nn, nn + 1, 5 * nn, 3, 17];
    let nops = if ctx.thorough {
        rng.range(4, 120)
    } else {
        rng.range(4, 50)
    } as usize;
    let mut ops = Vec::new();
    for _ in 0..nops {
        match rng.below(12) {
            0 if !cfg.wmode.is_async() => ops.push(HOp::Flush),
            // (explicit rotations are ordered with the queued records in async mode, too)
            1 if rng.chance(1, 3) => ops.push(HOp::Trigger),
            2 if !cfg.wmode.is_async() && rng.chance(1, 4) => ops.push(HOp::Reopen),
            // recursive logging: the inner record may be the one that takes the file over the limit
            3 if !cfg.wmode.is_async() && rng.chance(1, 2) => {
                let lo = *rng.pick(&line_lens);
                let li = *rng.pick(&line_lens);
                ops.push(HOp::WriteNested(*rng.pick(&LEVELS), lo.saturating_sub(le), li.saturating_sub(le)));
            }
            _ => {
                let ll = *rng.pick(&line_lens);
                ops.push(HOp::Write(*rng.pick(&LEVELS), ll.saturating_sub(le)));
            }
        }
    }

    let shape_base = format!(
        "{}|{}|{}|N{}|{}|{}|{}",
        if cfg.l2 { "L2" } else { "L1" },
        cfg.names.naming.label(),
        if age_or_size { "AgeOrSize" } else { "Size" },
        n,
        cfg.wmode.label(),
        if crlf { "CRLF" } else { "LF" },
        if pre { "append-pre" } else if cfg.append { "append-fresh" } else { "fresh" },
    );
    let mut res = CaseResult::new(shape_base.clone());
    let t0 = flw::base_time_ns(rng);
    flw::install_virtual(t0);

    let mut hist = match Hist::start(cfg.clone()) {
        Ok(h) => h,
        Err(e) => {
            res.violate("build-failed", "C08/build-failed", e);
            flw::uninstall_virtual();
            return res;
        }
    };
    let mut pre_len = 0usize;
    if pre {
        pre_len = *rng.pick(&[0usize, nn.saturating_sub(1), nn, nn + 1, 3 * nn + 2]);
        let content: Vec<u8> = (0..pre_len).map(|i| b'p' + (i % 3) as u8).collect();
        // created a little earlier, within the same clock period
        flw::preexisting_current(&cfg, &mut hist.model, content, t0);
    }

    let facts = format!(
        "naming={}/wmode={}/{}",
        cfg.names.naming.label(),
        cfg.wmode.label(),
        if pre { "append-to-existing" } else { "fresh" }
    );
    let mut comparisons = 0u64;
    let mut ok = true;
    let compare = |hist: &Hist, res: &mut CaseResult, when: &str| -> bool {
        match hist.observe() {
            Err(e) => {
                res.inconclusive(format!("cannot read directory: {e}"));
                false
            }
            Ok(obs) => {
                res.count("files_compared", obs.family.len() as u64);
                if !obs.foreign.is_empty() {
                    res.violate(
                        "foreign-file-created",
                        format!("C08/foreign-file-created/{facts}"),
                        format!("{when}: {:?}", obs.foreign),
                    );
                    return false;
                }
                match flw::compare_partition(&hist.cfg, &hist.model, &obs, false, false) {
                    Ok(()) => true,
                    Err((kind, detail)) => {
                        res.violate(
                            "partition-mismatch",
                            format!("C08/partition-{kind}/{facts}"),
                            format!("{when}: {detail}"),
                        );
                        false
                    }
                }
            }
        }
    };
    for (i, op) in ops.iter().enumerate() {
        if let Err(e) = hist.apply(op) {
            res.violate("op-error", format!("C08/op-error/{facts}"), format!("op {i} {op:?}: {e}"));
            ok = false;
            break;
        }
        if matches!(op, HOp::Flush) {
            comparisons += 1;
            if !compare(&hist, &mut res, &format!("after flush (op {i})")) {
                ok = false;
                break;
            }
        }
    }
    hist.shutdown();
    if ok {
        comparisons += 1;
        compare(&hist, &mut res, "after shutdown");
    }
    res.absorb_panics("C08", "size-rotation history");
    flw::uninstall_virtual();

    res.count("records", hist.records);
    res.count("comparisons", comparisons);
    res.count("rotations_by_size", hist.model.rotations_by_criterion);
    res.count("rotations_by_trigger", hist.triggers_effective);
    res.nontrivial = hist.model.rotations_by_criterion >= 1 && comparisons >= 1;
    let bucket = match hist.model.rotations_by_criterion {
        0 => "r0",
        1..=3 => "r1-3",
        4..=19 => "r4-19",
        _ => "r20+",
    };
    res.shape = format!("{shape_base}|{bucket}");
    if ctx.case < 2 || res.verdict != Verdict::Held {
        res.sample = Some(json!({
            "config": cfg.to_json(),
            "preexisting_current_len": if pre { Some(pre_len) } else { None },
            "ops": ops.iter().take(40).map(|o| format!("{o:?}")).collect::<Vec<_>>(),
            "n_ops": ops.len(),
            "expected_file_sizes": hist.model.contents().iter().map(|s| s.content.len()).collect::<Vec<_>>(),
        }));
    }
    res
}
