//! C14 — files outside the logger's naming pattern are never touched and never disturb it.
//! Oracle: differential (same seeded run in a clean and in a polluted directory, virtual clock)
//! + foreign snapshot equality (bytes, inode, mtime, mode, existence).

use crate::family::{self, NameCfg, NamingK};
use crate::flw::{self, AgeK, Clean, Crit, FlwCfg, FmtK, HOp, Hist, WMode};
use crate::util::{CaseCtx, CaseResult, Verdict, LEVELS};
use flexi_logger::LogfileSelector;
use serde_json::json;
use std::os::unix::fs::MetadataExt;
use std::path::Path;

const S: i64 = 1_000_000_000;

fn sample_infixes(n: &NameCfg, t0: i64) -> Vec<String> {
    let mut v = Vec::new();
    match &n.naming {
        NamingK::Numbers | NamingK::NumbersDirect => {
            v.push("r00000".to_string());
            v.push("r00001".to_string());
            v.push("r00007".to_string());
        }
        _ => {}
    }
    if let Some(fmt) = n.naming.ts_fmt() {
        let t = crate::ctl::local_from_ns(t0);
        v.push(t.format(fmt).to_string());
        v.push((t - chrono::Duration::days(1)).format(fmt).to_string());
    }
    if let Some(c) = n.naming.current_infix() {
        if !c.is_empty() {
            v.push(c.to_string());
        }
    }
    v
}

/// near misses of the family language, by class; every name is verified to be foreign
fn near_misses(n: &NameCfg, class: &str, t0: i64) -> Vec<String> {
    let fixed = n.fixed();
    let sfx = n.suffix.clone().map(|s| format!(".{s}")).unwrap_or_default();
    let infixes = sample_infixes(n, t0);
    let mut v: Vec<String> = Vec::new();
    let join = |f: &str, i: &str| {
        if f.is_empty() {
            i.to_string()
        } else {
            format!("{f}_{i}")
        }
    };
    for i in &infixes {
        match class {
            "longer-basename" => {
                v.push(format!("{}{sfx}", join(&format!("{fixed}x"), i)));
                v.push(format!("{}{sfx}", join(&format!("{fixed}_extra"), i)));
            }
            "shorter-basename" => {
                if fixed.len() > 1 {
                    let mut cut = fixed.len() - 1;
                    while !fixed.is_char_boundary(cut) {
                        cut -= 1;
                    }
                    v.push(format!("{}{sfx}", join(&fixed[..cut], i)));
                }
            }
            "other-separator" => {
                if !fixed.is_empty() {
                    v.push(format!("{fixed}X{i}{sfx}"));
                    v.push(format!("{fixed}-{i}{sfx}"));
                    v.push(format!("{fixed}.{i}{sfx}"));
                }
            }
            "other-discriminant" => {
                v.push(format!("{}{sfx}", join(&join(&fixed, "other"), i)));
            }
            "other-suffix" => {
                // compressed-looking files that lack the configured suffix, or carry another one
                if !sfx.is_empty() {
                    v.push(format!("{}.gz", join(&fixed, i)));
                }
                v.push(format!("{}.dat.gz", join(&fixed, i)));
                v.push(format!("{}.bak", join(&fixed, i)));
                v.push(format!("{}{sfx}.tmp", join(&fixed, i)));
                v.push(format!("{}.dat", join(&fixed, i)));
                if sfx.is_empty() {
                    v.push(format!("{}.log", join(&fixed, i)));
                }
            }
            "backup-copy" => {
                v.push(format!("{}{sfx}~", join(&fixed, i)));
                v.push(format!("{}{sfx}.bak", join(&fixed, i)));
                v.push(format!("{}{sfx}.gz.bak", join(&fixed, i)));
            }
            "extra-dots" => {
                v.push(format!("{}.extra{sfx}", join(&fixed, i)));
                v.push(format!("{}..{}", join(&fixed, i), sfx.trim_start_matches('.')));
            }
            "text-after-infix" => {
                v.push(format!("{}_bar{sfx}", join(&fixed, i)));
                v.push(format!("{}bar{sfx}", join(&fixed, i)));
                v.push(format!("{}.old{sfx}", join(&fixed, i)));
            }
            "infix-fragment-inside" => {
                v.push(format!("pre_{}{sfx}", join(&fixed, i)));
                v.push(format!("{}{sfx}", join(&join(&fixed, &format!("x{i}")), "y")));
            }
            "multibyte" => {
                v.push(format!("{fixed}\u{e9}{sfx}"));
                v.push(format!("{fixed}\u{e9}{i}{sfx}"));
                v.push(format!("{}\u{20ac}{sfx}", join(&fixed, i)));
                v.push(format!("{}{sfx}", join(&fixed, &format!("\u{e9}{i}"))));
            }
            "subdirectory" => {
                v.push(format!("{}{sfx}.d", join(&fixed, i)));
                v.push(format!("{}_dir{sfx}", join(&fixed, i)));
            }
            _ => {}
        }
    }
    match class {
        // sub-directories that carry the name of a family file which the history never reaches
        // (an index / a time far away): not log files, whatever they are called
        "family-named-directory" => {
            let far: Option<String> = if n.naming.is_numbers() {
                Some("r90500".to_string())
            } else {
                n.naming.ts_fmt().map(|f| {
                    (crate::ctl::local_from_ns(t0) + chrono::Duration::days(20_000)).format(f).to_string()
                })
            };
            if let Some(far_infix) = far {
                v.push(format!("{}{sfx}", join(&fixed, &far_infix)));
            }
        }
        "too-few-digits" => {
            if n.naming.is_numbers() {
                for i in ["r1", "r12", "r0001", "r", "r12a45", "rr00001", "R00001"] {
                    v.push(format!("{}{sfx}", join(&fixed, i)));
                }
            }
        }
        // the fixed name part ends like the beginning of ".<suffix>": a foreign file can start
        // with the fixed part, end with the suffix and still be shorter than both together
        // (the old "server.log" next to a family "server.log_r00000.log")
        "suffix-overlap" => {
            if let Some(s) = &n.suffix {
                let dotted = format!(".{s}");
                for k in 1..=dotted.len() {
                    if dotted.is_char_boundary(k) && fixed.ends_with(&dotted[..k]) {
                        v.push(format!("{fixed}{}", &dotted[k..]));
                    }
                }
            }
        }
        // a dot inside the fixed name part: names derived with Path::with_extension / file_stem
        // lose everything after it ("my.app_r00000" -> "my.gz")
        "dot-truncated" => {
            if let Some(i) = fixed.rfind('.') {
                if i > 0 {
                    v.push(format!("{}.gz", &fixed[..i]));
                    v.push(fixed[..i].to_string());
                    v.push(format!("{}{sfx}", &fixed[..i]));
                }
            }
        }
        "missing-infix" => {
            if n.naming != NamingK::NoRotation && !fixed.is_empty() {
                v.push(format!("{fixed}{sfx}"));
                v.push(format!("{fixed}_{sfx}"));
            }
        }
        "broken-timestamp" => {
            if n.naming.is_timestamps() {
                for i in [
                    "r2021-13-45_99-99-99",
                    "r2021-03-14",
                    "r2021-03-14_09-26",
                    "r2021-03-14_09-26-53.restart-1",
                    "r2021-03-14_09-26-53.restart-00001",
                    "r2021-03-14_09-26-53.restartx0001",
                ] {
                    v.push(format!("{}{sfx}", join(&fixed, i)));
                }
            }
        }
        _ => {}
    }
    v.sort();
    v.dedup();
    v.retain(|name| {
        !name.is_empty()
            && !name.contains('/')
            && name != "."
            && name != ".."
            && (class == "family-named-directory"
                || (n.classify(name).is_none()
                    // a foreign ".gz" of a family name would be a twin, not a foreign file
                    && n.classify(name.trim_end_matches(".gz")).is_none()))
    });
    v
}

const CLASSES: &[&str] = &[
    "longer-basename",
    "shorter-basename",
    "other-separator",
    "other-discriminant",
    "other-suffix",
    "backup-copy",
    "extra-dots",
    "text-after-infix",
    "infix-fragment-inside",
    "multibyte",
    "subdirectory",
    "family-named-directory",
    "too-few-digits",
    "missing-infix",
    "broken-timestamp",
    "suffix-overlap",
    "dot-truncated",
];

#[derive(Debug, Clone, PartialEq, Eq)]
struct ForeignSnap {
    name: String,
    is_dir: bool,
    len: u64,
    hash: u64,
    ino: u64,
    mtime_ns: i64,
    mode: u32,
    children: Vec<String>,
}

fn snap_foreign(dir: &Path, names: &[String]) -> Vec<Option<ForeignSnap>> {
    names
        .iter()
        .map(|n| {
            let p = dir.join(n);
            let md = std::fs::symlink_metadata(&p).ok()?;
            let is_dir = md.is_dir();
            let (hash, children) = if is_dir {
                let mut c: Vec<String> = std::fs::read_dir(&p)
                    .ok()?
                    .flatten()
                    .map(|e| e.file_name().to_string_lossy().to_string())
                    .collect();
                c.sort();
                (0, c)
            } else {
                (crate::rng::hash_str(&String::from_utf8_lossy(&std::fs::read(&p).ok()?)), vec![])
            };
            Some(ForeignSnap {
                name: n.clone(),
                is_dir,
                len: md.len(),
                hash,
                ino: md.ino(),
                mtime_ns: md.mtime() * S + md.mtime_nsec(),
                mode: md.mode(),
                children,
            })
        })
        .collect()
}

struct RunResult {
    family: Vec<(String, Vec<u8>)>,
    listings: Vec<Vec<String>>,
    error: Option<String>,
}

fn run_history(cfg: &FlwCfg, ops: &[HOp], t0: i64) -> RunResult {
    flw::install_virtual(t0);
    let mut out = RunResult {
        family: Vec::new(),
        listings: Vec::new(),
        error: None,
    };
    let mut hist = match Hist::start(cfg.clone()) {
        Ok(h) => h,
        Err(e) => {
            out.error = Some(format!("build: {e}"));
            flw::uninstall_virtual();
            return out;
        }
    };
    let selectors = || {
        vec![
            LogfileSelector::default(),
            LogfileSelector::default().with_compressed_files(),
            LogfileSelector::default().with_r_current(),
            LogfileSelector::none().with_compressed_files(),
            LogfileSelector::default()
                .with_compressed_files()
                .with_r_current()
                .with_custom_current(cfg.names.naming.current_infix().unwrap_or("rCURRENT")),
        ]
    };
    for (i, op) in ops.iter().enumerate() {
        if let Err(e) = hist.apply(op) {
            out.error = Some(format!("op {i} {op:?}: {e}"));
            break;
        }
        if i % 4 == 3 && hist.model.active {
            hist.driver.flush();
            for sel in selectors() {
                match hist.driver.existing_log_files(&sel) {
                    Ok(v) => out.listings.push(
                        v.iter()
                            .map(|p| {
                                p.file_name()
                                    .unwrap_or_default()
                                    .to_string_lossy()
                                    .to_string()
                            })
                            .collect(),
                    ),
                    Err(e) => out.listings.push(vec![format!("<error {e}>")]),
                }
            }
        }
    }
    hist.shutdown();
    flw::uninstall_virtual();
    if let Ok(obs) = family::observe(&cfg.names) {
        for f in obs.family {
            out.family
                .push((f.entry.name.clone(), f.content.unwrap_or_else(|e| e.into_bytes())));
        }
    }
    out
}

pub fn run_case(ctx: &mut CaseCtx) -> CaseResult {
    // every 32nd case has an independent observer: the polluted run happens in a child under
    // strace, and no successful mutating system call may name a foreign path
    let mode = if ctx.case % 32 == 21 { Mode::StraceParent } else { Mode::InProcess };
    run_case_mode(ctx, mode)
}

pub fn child_main(a: &crate::child::ChildArgs) -> i32 {
    let mut ctx = crate::child::ctx_of(a);
    let _ = run_case_mode(&mut ctx, Mode::StraceChild);
    0
}

#[derive(Clone, Copy, PartialEq, Eq)]
enum Mode {
    InProcess,
    StraceParent,
    StraceChild,
}

/// strace prints bytes outside printable ASCII as octal escapes
fn unescape(s: &str) -> String {
    let b = s.as_bytes();
    let mut out: Vec<u8> = Vec::new();
    let mut i = 0;
    while i < b.len() {
        if b[i] == b'\\' && i + 1 < b.len() {
            let c = b[i + 1];
            if (b'0'..=b'7').contains(&c) {
                let mut v = 0u32;
                let mut j = i + 1;
                while j < b.len() && j < i + 4 && (b'0'..=b'7').contains(&b[j]) {
                    v = v * 8 + u32::from(b[j] - b'0');
                    j += 1;
                }
                out.push(v as u8);
                i = j;
                continue;
            }
            out.push(match c {
                b'n' => b'\n',
                b't' => b'\t',
                b'r' => b'\r',
                other => other,
            });
            i += 2;
            continue;
        }
        out.push(b[i]);
        i += 1;
    }
    String::from_utf8_lossy(&out).to_string()
}

/// the path arguments ("...") and the paths behind file descriptors (3</...>) of one strace line
fn paths_of(line: &str) -> Vec<String> {
    let mut v = Vec::new();
    let b = line.as_bytes();
    let mut i = 0;
    while i < b.len() {
        if b[i] == b'"' {
            let mut j = i + 1;
            while j < b.len() && b[j] != b'"' {
                if b[j] == b'\\' {
                    j += 1;
                }
                j += 1;
            }
            if j <= b.len() {
                v.push(unescape(&line[i + 1..j.min(b.len())]));
            }
            i = j + 1;
        } else if b[i] == b'<' && i > 0 && b[i - 1].is_ascii_digit() {
            let mut j = i + 1;
            while j < b.len() && b[j] != b'>' {
                if b[j] == b'\\' {
                    j += 1;
                }
                j += 1;
            }
            v.push(unescape(&line[i + 1..j.min(b.len())]));
            i = j + 1;
        } else {
            i += 1;
        }
    }
    v
}

const MUTATING_BY_PATH: &[&str] = &[
    "rename", "renameat", "renameat2", "unlink", "unlinkat", "rmdir", "mkdir", "mkdirat", "truncate",
    "chmod", "fchmodat", "chown", "lchown", "fchownat", "link", "linkat", "symlink", "symlinkat",
    "utimensat", "utime", "utimes", "futimesat", "mknod", "mknodat", "setxattr", "lsetxattr",
    "removexattr", "lremovexattr", "creat", "ftruncate", "fchmod", "fchown", "fallocate",
];

struct SysObs {
    lines: u64,
    mutating_on_family: u64,
    reads_of_foreign: u64,
    hit: Option<(String, String)>,
}

/// offline check of the strace log: no successful mutating call names a foreign path
fn check_trace(text: &str, poll_dir: &Path, foreign: &[String]) -> SysObs {
    let mut o = SysObs { lines: 0, mutating_on_family: 0, reads_of_foreign: 0, hit: None };
    let dir = format!("{}/", poll_dir.to_string_lossy());
    for line in text.lines() {
        let mut it = line.splitn(2, ' ');
        let (Some(_pid), Some(rest)) = (it.next(), it.next()) else { continue };
        let rest = rest.trim_start();
        if rest.starts_with("---") || rest.starts_with("+++") {
            continue;
        }
        let name = if let Some(r) = rest.strip_prefix("<... ") {
            r.split(' ').next().unwrap_or("").to_string()
        } else {
            match rest.find('(') {
                Some(p) => rest[..p].to_string(),
                None => continue,
            }
        };
        o.lines += 1;
        // the result: failed calls changed nothing
        let failed = rest.rsplit(" = ").next().is_some_and(|r| r.starts_with("-1"));
        let is_open = matches!(name.as_str(), "open" | "openat" | "openat2");
        let mutating = if is_open {
            ["O_WRONLY", "O_RDWR", "O_CREAT", "O_TRUNC", "O_APPEND"].iter().any(|f| rest.contains(f))
        } else {
            MUTATING_BY_PATH.contains(&name.as_str())
        };
        for p in paths_of(rest) {
            let Some(rel) = p.strip_prefix(&dir) else { continue };
            let first = rel.split('/').next().unwrap_or("");
            let is_foreign = foreign.iter().any(|f| f == first);
            if is_foreign {
                if mutating && !failed {
                    if o.hit.is_none() {
                        o.hit = Some((name.clone(), line.chars().take(300).collect()));
                    }
                } else {
                    o.reads_of_foreign += 1;
                }
            } else if mutating && !failed {
                o.mutating_on_family += 1;
            }
        }
    }
    o
}

fn run_case_mode(ctx: &mut CaseCtx, mode: Mode) -> CaseResult {
    let rng = &mut ctx.rng;
    let naming = flw::gen_naming(rng, true);
    let clean_dir = ctx.dir.join("clean");
    let poll_dir = ctx.dir.join("polluted");
    let _ = std::fs::create_dir_all(&clean_dir);
    let _ = std::fs::create_dir_all(&poll_dir);
    let (mut names, _) = flw::gen_name_parts(rng, &clean_dir, naming, false);
    if rng.chance(1, 6) {
        names.basename = "caf\u{e9}".to_string();
    }
    let clean = match rng.below(5) {
        0 | 1 => Clean::Never,
        2 => Clean::Logs(rng.usize(4)),
        3 => Clean::Gz(rng.usize(4)),
        _ => Clean::Both(rng.usize(3), rng.usize(3)),
    };
    let crit = match rng.below(3) {
        0 => Crit::Age(AgeK::Second),
        _ => Crit::Size(*rng.pick(&[0u64, 25, 100])),
    };
    let class = *rng.pick(CLASSES);
    let t0 = flw::base_time_ns(rng);
    if class == "suffix-overlap" {
        // e.g. basename "server.log" / "srv.lo" / "srv." with suffix "log"
        let s = names.suffix.clone().unwrap_or_else(|| "log".to_string());
        names.suffix = Some(s.clone());
        let dotted = format!(".{s}");
        let mut k = 1 + rng.usize(dotted.len());
        while !dotted.is_char_boundary(k) {
            k += 1;
        }
        let tail = format!("{}{}", *rng.pick(&["server", "srv", "x"]), &dotted[..k]);
        // the overlap must be at the end of the fixed part, whichever name part comes last
        if names.start_ts.is_none() {
            if names.discr.is_some() {
                names.discr = Some(tail);
            } else {
                names.basename = tail;
            }
        }
    }
    if class == "dot-truncated" {
        // e.g. basename "my.app", mostly without suffix (then the dot is the last one of the name)
        let tail = (*rng.pick(&["my.app", "app-1.2", "srv.d"])).to_string();
        if names.start_ts.is_none() {
            if names.discr.is_some() {
                names.discr = Some(tail);
            } else {
                names.basename = tail;
            }
        }
        if rng.chance(2, 3) {
            names.suffix = None;
        }
    }
    let mk_cfg = |dir: &Path| {
        let mut n = names.clone();
        n.dir = dir.to_path_buf();
        FlwCfg {
            names: n,
            use_ts: false,
            crit: Some(crit),
            clean,
            clean_bg: false,
            wmode: WMode::Direct,
            crlf: false,
            append: true,
            symlink: None,
            use_utc: false,
            max_level: log::LevelFilter::Trace,
            fmt: FmtK::Raw,
            l2: false,
        }
    };
    let mut cfg_c = mk_cfg(&clean_dir);
    cfg_c.append = rng.chance(1, 2);
    cfg_c.l2 = rng.chance(1, 5);
    let mut cfg_p = mk_cfg(&poll_dir);
    cfg_p.append = cfg_c.append;
    cfg_p.l2 = cfg_c.l2;
    let foreign = near_misses(&cfg_p.names, class, t0);
    let mut res = CaseResult::new(format!(
        "{}|{}|{}|{}",
        cfg_c.names.naming.label(),
        clean.label(),
        class,
        cfg_c.name_mask()
    ));
    if foreign.is_empty() {
        res.count("cases_without_applicable_near_miss", 1);
        return res;
    }
    // create the foreign entries
    for (i, f) in foreign.iter().enumerate() {
        if mode == Mode::StraceChild {
            break; // the parent has created them
        }
        let p = poll_dir.join(f);
        if class == "subdirectory" || class == "family-named-directory" {
            let _ = std::fs::create_dir_all(&p);
            let _ = std::fs::write(p.join("inner.log"), b"inner");
        } else {
            let _ = std::fs::write(&p, format!("foreign content {i} of {f}\n"));
        }
    }
    let existing: Vec<String> = foreign
        .iter()
        .filter(|f| poll_dir.join(f).exists())
        .cloned()
        .collect();
    let before = snap_foreign(&poll_dir, &existing);

    let nops = rng.range(4, if ctx.thorough { 70 } else { 35 }) as usize;
    let mut ops = Vec::new();
    for _ in 0..nops {
        ops.push(match rng.below(12) {
            0..=6 => HOp::Write(*rng.pick(&LEVELS), rng.usize(40)),
            7..=8 => HOp::Trigger,
            9 => HOp::Advance(*rng.pick(&[0, S, 2 * S, 86_400 * S])),
            10 => HOp::Restart {
                append: rng.chance(1, 2),
            },
            _ => HOp::Flush,
        });
    }
    if mode == Mode::StraceChild {
        let _ = run_history(&cfg_p, &ops, t0);
        return res;
    }
    let empty = || RunResult { family: Vec::new(), listings: Vec::new(), error: None };
    let mut sys: Option<SysObs> = None;
    let (a, b) = if mode == Mode::StraceParent {
        let trace_file = ctx.dir.join("strace_c14.txt");
        let tf = trace_file.to_string_lossy().to_string();
        let wrapper: Vec<String> = [
            "strace", "-f", "-y", "-qq", "-e", "signal=none", "-o", &tf, "-e",
            "trace=%file,ftruncate,fchmod,fchown,fallocate",
        ]
        .iter()
        .map(|s| (*s).to_string())
        .collect();
        let ctx_ro: &CaseCtx = ctx;
        let out = crate::child::spawn_wrapped(
            &crate::child::Spawn {
                ctx: ctx_ro,
                role: "strace",
                extra: vec![],
                env: vec![],
                timeout: std::time::Duration::from_secs(60),
                tag: "strace",
                cwd: None,
                kill_after: None,
            },
            &wrapper,
        );
        match out {
            Ok(o) if o.clean_exit() && trace_file.exists() => {
                let text = String::from_utf8_lossy(&std::fs::read(&trace_file).unwrap_or_default()).to_string();
                sys = Some(check_trace(&text, &poll_dir, &existing));
                res.count("strace_runs", 1);
            }
            Ok(o) if !o.timed_out && o.code == Some(101) => {
                res.violate(
                    "panic",
                    format!("C14/panic-in-child/{class}"),
                    format!("with foreign files {:?}: {}", existing, String::from_utf8_lossy(&o.stderr[..o.stderr.len().min(400)])),
                );
            }
            _ => res.count("strace_unavailable", 1),
        }
        (empty(), empty())
    } else {
        let a = run_history(&cfg_c, &ops, t0);
        let _ = crate::util::take_panics(); // the clean run is the reference; its panics are C10's
        let b = run_history(&cfg_p, &ops, t0);
        (a, b)
    };
    let after = snap_foreign(&poll_dir, &existing);
    if let Some(o) = &sys {
        res.count("strace_lines_checked", o.lines);
        res.count("strace_mutating_calls_on_family_files", o.mutating_on_family);
        res.count("strace_non_mutating_calls_on_foreign_files", o.reads_of_foreign);
        if let Some((call, line)) = &o.hit {
            res.violate(
                "syscall-on-foreign-file",
                format!("C14/syscall-on-foreign-file/{call}/{class}/naming={}", cfg_c.names.naming.label()),
                format!("a successful mutating system call names a foreign path (foreign: {existing:?}): {line}"),
            );
        }
    }

    let facts = format!("{class}/naming={}", cfg_c.names.naming.label());
    res.count("foreign_files", existing.len() as u64);
    res.count("differential_pairs", 1);
    // panics in the polluted run
    for p in crate::util::take_panics() {
        if crate::util::in_repo_file(&p.file) {
            res.violate(
                "panic",
                format!(
                    "C14/panic/{class}/{}/{}",
                    crate::util::repo_rel(&p.file),
                    crate::util::normalise_msg(&p.message)
                ),
                format!(
                    "with foreign files {:?}: panic in {} at {}: {}",
                    existing, p.thread, p.location, p.message
                ),
            );
        }
    }
    for (bef, aft) in before.iter().zip(after.iter()) {
        if bef != aft {
            let name = bef.as_ref().map(|b| b.name.clone()).unwrap_or_default();
            let what = match (bef, aft) {
                (Some(_), None) => "deleted-or-renamed",
                (Some(x), Some(y)) if x.hash != y.hash || x.len != y.len => "content-changed",
                (Some(x), Some(y)) if x.ino != y.ino => "replaced",
                _ => "metadata-changed",
            };
            res.violate(
                "foreign-file-touched",
                format!("C14/foreign-file-{what}/{facts}"),
                format!("foreign file {name:?}: before {bef:?}, after {aft:?}"),
            );
            break;
        }
    }
    if a.error != b.error {
        res.violate(
            "operation-result-differs",
            format!("C14/operation-result-differs/{facts}"),
            format!("clean run: {:?}; polluted run: {:?}", a.error, b.error),
        );
    }
    if a.family != b.family && res.verdict == Verdict::Held {
        let d = |v: &[(String, Vec<u8>)]| {
            v.iter()
                .map(|(n, c)| format!("{n}:{}", c.len()))
                .collect::<Vec<_>>()
                .join(", ")
        };
        res.violate(
            "family-differs",
            format!("C14/family-differs/{facts}"),
            format!(
                "with foreign files {:?}: clean run gives [{}], polluted run gives [{}]",
                existing,
                d(&a.family),
                d(&b.family)
            ),
        );
    }
    if a.listings != b.listings && res.verdict == Verdict::Held {
        let idx = a
            .listings
            .iter()
            .zip(b.listings.iter())
            .position(|(x, y)| x != y)
            .unwrap_or(0);
        res.violate(
            "listing-differs",
            format!("C14/listing-differs/{facts}"),
            format!(
                "existing_log_files query #{idx}: clean {:?} vs polluted {:?} (foreign: {:?})",
                a.listings.get(idx),
                b.listings.get(idx),
                existing
            ),
        );
    }
    res.count("listing_queries_compared", a.listings.len() as u64);
    res.nontrivial = !existing.is_empty()
        && (a.family.len() >= 2 || sys.as_ref().is_some_and(|o| o.mutating_on_family >= 3));
    if mode == Mode::StraceParent {
        res.shape = format!("{}|strace", res.shape);
    }
    if ctx.case < 3 || res.verdict != Verdict::Held {
        res.sample = Some(json!({
            "config": cfg_p.to_json(),
            "near_miss_class": class,
            "foreign": existing,
            "ops": ops.iter().take(40).map(|o| format!("{o:?}")).collect::<Vec<_>>(),
        }));
    }
    res
}
