//! Child-process scenarios (driver level L3): `flmon child <PROP> --seed S --shard J --case I
//! --dir D --role R` re-derives the case's PRNG state, so parent and child generate the same
//! scenario without exchanging it. The parent captures stdout/stderr to files, supervises the
//! child with a watchdog and inspects the exit status.

use crate::util::CaseCtx;
use std::path::{Path, PathBuf};
use std::process::{Command, Stdio};
use std::time::{Duration, Instant};

pub struct ChildOut {
    pub code: Option<i32>,
    pub signal: Option<i32>,
    pub timed_out: bool,
    pub stdout: Vec<u8>,
    pub stderr: Vec<u8>,
    pub wall: Duration,
}
impl ChildOut {
    pub fn clean_exit(&self) -> bool {
        !self.timed_out && self.code == Some(0)
    }
    pub fn describe(&self) -> String {
        if self.timed_out {
            "no exit within the watchdog bound (killed)".into()
        } else if let Some(s) = self.signal {
            format!("killed by signal {s}")
        } else {
            format!("exit code {:?}", self.code)
        }
    }
}

/// the running binary itself: /proc/self/exe stays valid when the file is rebuilt meanwhile
fn own_exe() -> std::io::Result<std::path::PathBuf> {
    let p = std::path::PathBuf::from("/proc/self/exe");
    if p.exists() {
        Ok(p)
    } else {
        std::env::current_exe()
    }
}

pub struct Spawn<'a> {
    pub ctx: &'a CaseCtx,
    pub role: &'a str,
    pub extra: Vec<(String, String)>,
    pub env: Vec<(String, String)>,
    pub timeout: Duration,
    pub tag: &'a str,
    pub cwd: Option<PathBuf>,
    /// kill the child with SIGKILL after this long (C11's random kills)
    pub kill_after: Option<Duration>,
}

/// like `spawn`, but stdout/stderr are pipes (not regular files, so that RLIMIT_FSIZE in the
/// child does not apply to them); only for children with small outputs (< 64 KiB per stream)
pub fn spawn_piped(s: &Spawn) -> std::io::Result<ChildOut> {
    use std::io::Read;
    let exe = own_exe()?;
    let mut cmd = Command::new(exe);
    cmd.arg("child")
        .arg(&s.ctx.prop)
        .arg("--seed")
        .arg(s.ctx.seed.to_string())
        .arg("--shard")
        .arg(s.ctx.shard.to_string())
        .arg("--case")
        .arg(s.ctx.case.to_string())
        .arg("--dir")
        .arg(&s.ctx.dir)
        .arg("--role")
        .arg(s.role);
    for (k, v) in &s.extra {
        cmd.arg(format!("--x-{k}")).arg(v);
    }
    cmd.env("FLMON_KEEP_TZ", "1");
    cmd.stdin(Stdio::null())
        .stdout(Stdio::piped())
        .stderr(Stdio::piped());
    let start = Instant::now();
    let mut child = cmd.spawn()?;
    let mut timed_out = false;
    let status = loop {
        if let Some(st) = child.try_wait()? {
            break st;
        }
        if start.elapsed() > s.timeout {
            timed_out = true;
            let _ = child.kill();
            break child.wait()?;
        }
        std::thread::sleep(Duration::from_millis(1));
    };
    let mut stdout = Vec::new();
    let mut stderr = Vec::new();
    if let Some(mut o) = child.stdout.take() {
        let _ = o.read_to_end(&mut stdout);
    }
    if let Some(mut e) = child.stderr.take() {
        let _ = e.read_to_end(&mut stderr);
    }
    use std::os::unix::process::ExitStatusExt;
    Ok(ChildOut {
        code: status.code(),
        signal: status.signal(),
        timed_out,
        stdout,
        stderr,
        wall: start.elapsed(),
    })
}

pub fn spawn(s: &Spawn) -> std::io::Result<ChildOut> {
    spawn_wrapped(s, &[])
}

/// the path of the running binary as a wrapper program (strace) can start it; `None` when the
/// file was replaced meanwhile
pub fn own_exe_resolved() -> Option<PathBuf> {
    let p = std::fs::read_link("/proc/self/exe").ok()?;
    if p.to_string_lossy().ends_with(" (deleted)") || !p.exists() {
        return None;
    }
    Some(p)
}

/// like `spawn`, with the child started through a wrapper command (e.g. `strace -f ... --`)
pub fn spawn_wrapped(s: &Spawn, wrapper: &[String]) -> std::io::Result<ChildOut> {
    let exe = if wrapper.is_empty() {
        own_exe()?
    } else {
        own_exe_resolved().ok_or_else(|| std::io::Error::new(std::io::ErrorKind::NotFound, "own binary was replaced"))?
    };
    let out_path = s.ctx.dir.join(format!("{}.stdout", s.tag));
    let err_path = s.ctx.dir.join(format!("{}.stderr", s.tag));
    let out_f = std::fs::File::create(&out_path)?;
    let err_f = std::fs::File::create(&err_path)?;
    let mut cmd = if wrapper.is_empty() {
        Command::new(exe)
    } else {
        let mut c = Command::new(&wrapper[0]);
        c.args(&wrapper[1..]);
        c.arg(exe);
        c
    };
    cmd.arg("child")
        .arg(&s.ctx.prop)
        .arg("--seed")
        .arg(s.ctx.seed.to_string())
        .arg("--shard")
        .arg(s.ctx.shard.to_string())
        .arg("--case")
        .arg(s.ctx.case.to_string())
        .arg("--dir")
        .arg(&s.ctx.dir)
        .arg("--role")
        .arg(s.role);
    if s.ctx.thorough {
        cmd.arg("--thorough");
    }
    for (k, v) in &s.extra {
        cmd.arg(format!("--x-{k}")).arg(v);
    }
    for (k, v) in &s.env {
        cmd.env(k, v);
    }
    cmd.env("FLMON_KEEP_TZ", "1");
    if let Some(c) = &s.cwd {
        cmd.current_dir(c);
    }
    cmd.stdin(Stdio::null())
        .stdout(Stdio::from(out_f))
        .stderr(Stdio::from(err_f));
    let start = Instant::now();
    let mut child = cmd.spawn()?;
    let mut timed_out = false;
    let mut killed_on_purpose = false;
    let status = loop {
        if let Some(st) = child.try_wait()? {
            break st;
        }
        if let Some(k) = s.kill_after {
            if !killed_on_purpose && start.elapsed() >= k {
                let _ = child.kill();
                killed_on_purpose = true;
            }
        }
        if start.elapsed() > s.timeout {
            timed_out = true;
            let _ = child.kill();
            break child.wait()?;
        }
        std::thread::sleep(Duration::from_micros(if start.elapsed() < Duration::from_millis(50) {
            200
        } else {
            2000
        }));
    };
    use std::os::unix::process::ExitStatusExt;
    Ok(ChildOut {
        code: status.code(),
        signal: status.signal(),
        timed_out,
        stdout: std::fs::read(&out_path).unwrap_or_default(),
        stderr: std::fs::read(&err_path).unwrap_or_default(),
        wall: start.elapsed(),
    })
}

/// runs the child; a watchdog firing is only reported as a hang when it fires again on an
/// immediate second run of the same scenario (otherwise: inconclusive)
pub fn spawn_confirm_hang(s: &Spawn) -> std::io::Result<(ChildOut, bool)> {
    let first = spawn(s)?;
    if !first.timed_out {
        return Ok((first, false));
    }
    let second = spawn(s)?;
    let confirmed = second.timed_out;
    Ok((if confirmed { second } else { first }, confirmed))
}

pub struct ChildArgs {
    pub prop: String,
    pub seed: u64,
    pub shard: u64,
    pub case: u64,
    pub dir: PathBuf,
    pub role: String,
    pub thorough: bool,
    pub extra: Vec<(String, String)>,
}
impl ChildArgs {
    pub fn x(&self, k: &str) -> Option<&str> {
        self.extra
            .iter()
            .find(|(kk, _)| kk == k)
            .map(|(_, v)| v.as_str())
    }
    pub fn xu(&self, k: &str) -> Option<u64> {
        self.x(k).and_then(|v| v.parse().ok())
    }
}

pub fn parse_child_args(argv: &[String]) -> ChildArgs {
    let mut a = ChildArgs {
        prop: argv.first().cloned().unwrap_or_default(),
        seed: 1,
        shard: 0,
        case: 0,
        dir: PathBuf::from("."),
        role: String::new(),
        thorough: false,
        extra: Vec::new(),
    };
    let mut i = 1;
    while i < argv.len() {
        let v = argv.get(i + 1).cloned().unwrap_or_default();
        match argv[i].as_str() {
            "--seed" => {
                a.seed = v.parse().unwrap_or(1);
                i += 1;
            }
            "--shard" => {
                a.shard = v.parse().unwrap_or(0);
                i += 1;
            }
            "--case" => {
                a.case = v.parse().unwrap_or(0);
                i += 1;
            }
            "--dir" => {
                a.dir = PathBuf::from(v);
                i += 1;
            }
            "--role" => {
                a.role = v;
                i += 1;
            }
            "--thorough" => a.thorough = true,
            k if k.starts_with("--x-") => {
                a.extra.push((k[4..].to_string(), v));
                i += 1;
            }
            _ => {}
        }
        i += 1;
    }
    a
}

pub fn ctx_of(a: &ChildArgs) -> CaseCtx {
    CaseCtx {
        prop: a.prop.clone(),
        seed: a.seed,
        shard: a.shard,
        case: a.case,
        rng: crate::rng::Rng::for_case(a.seed, &a.prop, a.shard, a.case),
        dir: a.dir.clone(),
        thorough: a.thorough,
        verbose: false,
    }
}

/// append-only ack file written by children after each returned log call
pub struct AckFile {
    f: std::fs::File,
}
impl AckFile {
    pub fn create(p: &Path) -> std::io::Result<AckFile> {
        Ok(AckFile {
            f: std::fs::OpenOptions::new().create(true).append(true).open(p)?,
        })
    }
    pub fn ack(&mut self, line: &str) {
        use std::io::Write;
        let _ = self.f.write_all(format!("{line}\n").as_bytes());
    }
}
