//! C01 — rotated log stream is complete, duplicate-free and in order
//! (single thread, synchronous write modes, no cleanup).

use crate::ctl;
use crate::family::{self, NamingK};
use crate::flw::{self, Clean, Crit, Driver, FlwCfg, FmtK, WMode};
use crate::rng::Rng;
use crate::util::{CaseCtx, CaseResult, LEVELS};
use serde_json::json;

#[derive(Clone, Debug)]
pub enum Op {
    Write(log::Level, usize),
    Trigger,
    Flush,
    Advance(i64),
    /// reopen_output() with the current file in place
    Reopen,
}

pub fn gen_crit(rng: &mut Rng, size_only: bool) -> Crit {
    let sizes = [0u64, 1, 10, 60, 100, 500, 3000];
    let ages = [flw::AgeK::Second, flw::AgeK::Minute, flw::AgeK::Hour, flw::AgeK::Day];
    if size_only {
        return Crit::Size(*rng.pick(&sizes));
    }
    match rng.below(3) {
        0 => Crit::Size(*rng.pick(&sizes)),
        1 => Crit::Age(*rng.pick(&ages)),
        _ => Crit::AgeOrSize(*rng.pick(&ages), *rng.pick(&sizes)),
    }
}

pub fn gen_sync_wmode(rng: &mut Rng, allow_flusher: bool) -> WMode {
    let caps = [1usize, 7, 64, 300, 8192];
    match rng.below(if allow_flusher { 10 } else { 9 }) {
        0..=2 => WMode::Direct,
        3 => WMode::SupportCapture,
        4..=8 => WMode::BufDont(*rng.pick(&caps)),
        _ => WMode::BufFlush(*rng.pick(&caps), *rng.pick(&[5u64, 20, 1000])),
    }
}

pub fn gen_len(rng: &mut Rng, crit: Option<Crit>, wmode: WMode) -> usize {
    let n = match crit {
        Some(Crit::Size(n)) | Some(Crit::AgeOrSize(_, n)) => n as usize,
        _ => 50,
    };
    let cap = match wmode {
        WMode::BufDont(c) | WMode::BufFlush(c, _) => c,
        _ => 64,
    };
    match rng.below(12) {
        0 => 0,
        1 => 1,
        2 => n.saturating_sub(1),
        3 => n,
        4 => n + 1,
        5 => cap.saturating_sub(2).min(9000),
        6 => cap.min(9000),
        7 => (cap + 1).min(9000),
        8 => (5 * n + 3).min(20_000),
        9 => 2 * cap.min(5000) + 17,
        _ => rng.usize(40),
    }
}

pub fn run_case(ctx: &mut CaseCtx) -> CaseResult {
    let rng = &mut ctx.rng;
    // equivalent builder call sequences (see flw::set_build_variant)
    flw::set_build_variant(rng.below(8) as u8);
    let virtual_clock = !rng.chance(1, 8);
    let naming = flw::gen_naming(rng, true);
    let crit = if virtual_clock {
        gen_crit(rng, false)
    } else {
        gen_crit(rng, true)
    };
    // date-only custom formats are documented for Age rotation with matching granularity only
    let naming = match (&naming, crit) {
        (NamingK::Custom { current: None, .. }, Crit::Size(_) | Crit::AgeOrSize(_, _)) => {
            // "if you choose current_infix = None, make sure to rotate only by age": still
            // exercised (collisions go to .restart-NNNN), documented formats with seconds only
            naming
        }
        _ => naming,
    };
    let l2 = rng.chance(1, 4);
    let wmode = gen_sync_wmode(rng, ctx.case % 7 == 3);
    let (mut names, use_ts) = flw::gen_name_parts(rng, &ctx.dir, naming, true);
    let t0 = if virtual_clock {
        flw::base_time_ns(rng)
    } else {
        0
    };
    if use_ts {
        names.start_ts = Some(if virtual_clock {
            ctl::local_from_ns(t0).format(flw::START_TS_FMT).to_string()
        } else {
            // real clock: the start time is whatever the first use yields; pinned below
            String::new()
        });
    }
    let cfg = FlwCfg {
        names,
        use_ts: use_ts && virtual_clock,
        crit: Some(crit),
        clean: Clean::Never,
        clean_bg: rng.chance(1, 2),
        wmode,
        crlf: rng.chance(1, 3),
        append: rng.chance(1, 2),
        symlink: None,
        use_utc: false,
        max_level: if l2 {
            log::LevelFilter::Trace
        } else {
            *rng.pick(&[
                log::LevelFilter::Trace,
                log::LevelFilter::Trace,
                log::LevelFilter::Info,
                log::LevelFilter::Warn,
            ])
        },
        fmt: *rng.pick(&[FmtK::Raw, FmtK::Raw, FmtK::Raw, FmtK::Default, FmtK::Empty]),
        l2,
    };
    let mut cfg = cfg;
    if !cfg.use_ts {
        cfg.names.start_ts = None;
    }

    // operation history
    let nops = if ctx.thorough {
        rng.range(5, 200)
    } else {
        rng.range(5, 60)
    } as usize;
    let mut ops = Vec::with_capacity(nops);
    // now and then the clock is set back between operations (an NTP step, a manual correction):
    // names are then no longer chronological, so only "every accepted line exactly once,
    // in whichever file" is judged
    let steps_back = virtual_clock && rng.chance(1, 8);
    let advances: [i64; 8] = [
        0,
        1_000_000,
        400_000_000,
        1_000_000_000,
        1_000_000_000,
        61_000_000_000,
        3_601_000_000_000,
        86_401_000_000_000,
    ];
    for _ in 0..nops {
        let op = match rng.below(20) {
            0..=11 => Op::Write(*rng.pick(&LEVELS), gen_len(rng, cfg.crit, cfg.wmode)),
            12..=13 => Op::Trigger,
            14..=15 => Op::Flush,
            16 => {
                if rng.chance(1, 3) {
                    Op::Reopen
                } else {
                    Op::Flush
                }
            }
            _ if steps_back && rng.chance(1, 2) => {
                Op::Advance(*rng.pick(&[-1_000_000_000i64, -2_000_000_000, -3_600_000_000_000, -400_000_000]))
            }
            _ => Op::Advance(*rng.pick(&advances)),
        };
        ops.push(op);
    }

    if cfg.use_ts {
        // the start-time part is pinned at first use: make build time = first use
        ops.insert(0, Op::Write(log::Level::Error, 3));
    }

    let shape_base = format!(
        "{}|{}|{}|{}|{}|{}|{}|{:?}",
        if cfg.l2 { "L2" } else { "L1" },
        cfg.names.naming.label(),
        crit.label(),
        cfg.wmode.label(),
        if cfg.crlf { "CRLF" } else { "LF" },
        cfg.name_mask(),
        if virtual_clock { "vclock" } else { "realclock" },
        cfg.fmt,
    );
    let mut res = CaseResult::new(shape_base.clone());

    ctl::install(false);
    if virtual_clock {
        ctl::clock_set(t0);
        ctl::with_ctl(|c| c.use_creation_table = true);
    } else {
        ctl::clock_unset();
    }

    let mut driver = match Driver::build(&cfg) {
        Ok(d) => d,
        Err(e) => {
            res.violate("build-failed", "C01/build-failed", e);
            ctl::uninstall();
            ctl::clock_unset();
            return res;
        }
    };

    let mut expected: Vec<u8> = Vec::new();
    let mut boundaries: std::collections::BTreeSet<usize> = std::collections::BTreeSet::new();
    boundaries.insert(0);
    let mut seq = 0u64;
    let mut comparisons = 0u64;
    let mut triggers = 0u64;
    let mut max_files = 0usize;
    let mut saw_restart = false;
    let mut advanced_seconds = false;
    let mut written_since_start = false;

    let check = |res: &mut CaseResult,
                     expected: &[u8],
                     boundaries: &std::collections::BTreeSet<usize>,
                     when: &str,
                     max_files: &mut usize,
                     saw_restart: &mut bool,
                     advanced_seconds: bool|
     -> bool {
        let obs = match family::observe(&cfg.names) {
            Ok(o) => o,
            Err(e) => {
                res.inconclusive(format!("cannot read directory: {e}"));
                return false;
            }
        };
        *max_files = (*max_files).max(obs.family.len());
        if obs.family.iter().any(|f| f.entry.infix.contains(".restart-")) {
            *saw_restart = true;
        }
        res.count("files_read", obs.family.len() as u64);
        let facts = if cfg.use_ts && advanced_seconds {
            // the configuration facts that make it fail: start-time part + a clock that moved on
            "start-time-part+clock-advanced".to_string()
        } else {
            format!(
                "naming={}/crit={}/mask={}",
                cfg.names.naming.label(),
                crit.label(),
                cfg.name_mask()
            )
        };
        if !obs.foreign.is_empty() {
            res.violate(
                "foreign-file-created",
                format!("C01/foreign-file-created/{facts}"),
                format!(
                    "{when}: the logger created files outside its documented family: {:?} (family: {:?})",
                    obs.foreign,
                    obs.names()
                ),
            );
            return false;
        }
        match obs.stream() {
            Err(e) => {
                res.violate("unreadable", format!("C01/unreadable/{facts}"), e);
                false
            }
            Ok(got) => {
                res.count("bytes_compared", got.len() as u64);
                if steps_back {
                    let le = cfg.line_ending();
                    let split = |v: &[u8]| -> Vec<Vec<u8>> {
                        let mut out = Vec::new();
                        let mut start = 0;
                        let mut i = 0;
                        while i + le.len() <= v.len() {
                            if &v[i..i + le.len()] == le {
                                out.push(v[start..i].to_vec());
                                i += le.len();
                                start = i;
                            } else {
                                i += 1;
                            }
                        }
                        if start < v.len() {
                            out.push(v[start..].to_vec());
                        }
                        out.sort();
                        out
                    };
                    let (a, b) = (split(expected), split(&got));
                    if a != b {
                        let missing = a.iter().filter(|l| !b.contains(l)).count();
                        res.violate(
                            "lines-lost-or-duplicated",
                            format!("C01/lines-lost-or-duplicated/clock-set-back/{facts}"),
                            format!(
                                "{when}: {} lines were accepted, {} are in the files ({missing} of the accepted ones in none of them); files {:?}",
                                a.len(),
                                b.len(),
                                obs.names()
                            ),
                        );
                        return false;
                    }
                    res.count("comparisons_as_multiset_clock_set_back", 1);
                    return true;
                }
                if let Some(d) = flw::diff_bytes(expected, &got) {
                    res.violate(
                        "stream-mismatch",
                        format!("C01/stream-mismatch/{facts}"),
                        format!("{when}: {d}; files {:?}", obs.names()),
                    );
                    return false;
                }
                // every file ends on a record boundary
                let mut off = 0usize;
                for f in &obs.family {
                    off += f.content.as_ref().map(Vec::len).unwrap_or(0);
                    if !boundaries.contains(&off) {
                        res.violate(
                            "file-boundary-inside-record",
                            format!("C01/file-boundary-inside-record/{facts}"),
                            format!("{when}: file {} ends at stream offset {off}, inside a record", f.entry.name),
                        );
                        return false;
                    }
                }
                true
            }
        }
    };

    let mut ok = true;
    for (i, op) in ops.iter().enumerate() {
        match op {
            Op::Write(level, len) => {
                let msg = flw::msg_exact(seq, *len);
                seq += 1;
                driver.write(*level, &msg);
                if *level <= cfg.max_level {
                    expected.extend_from_slice(&cfg.fmt.expected(*level, &msg));
                    expected.extend_from_slice(cfg.line_ending());
                    boundaries.insert(expected.len());
                }
                written_since_start = true;
                res.count("records", 1);
            }
            Op::Trigger => {
                if let Err(e) = driver.rotate() {
                    res.violate(
                        "trigger-error",
                        format!("C01/trigger-error/naming={}", cfg.names.naming.label()),
                        format!("op {i}: trigger_rotation returned {e}"),
                    );
                    ok = false;
                    break;
                }
                if written_since_start {
                    triggers += 1;
                }
            }
            Op::Flush => {
                driver.flush();
                comparisons += 1;
                if !check(
                    &mut res,
                    &expected,
                    &boundaries,
                    &format!("after flush (op {i})"),
                    &mut max_files,
                    &mut saw_restart,
                    advanced_seconds,
                ) {
                    ok = false;
                    break;
                }
            }
            Op::Reopen => {
                if let Err(e) = driver.reopen() {
                    res.violate(
                        "reopen-error",
                        format!("C01/reopen-error/naming={}", cfg.names.naming.label()),
                        format!("op {i}: reopen_output with the file in place returned {e}"),
                    );
                    ok = false;
                    break;
                }
                res.count("reopen_with_file_in_place", 1);
            }
            Op::Advance(d) => {
                if virtual_clock {
                    let before = ctl::clock_get().unwrap_or(0) / 1_000_000_000;
                    ctl::clock_advance(*d);
                    let after = ctl::clock_get().unwrap_or(0) / 1_000_000_000;
                    if before != after {
                        advanced_seconds = true;
                    }
                }
            }
        }
    }
    driver.shutdown();
    if ok {
        comparisons += 1;
        check(
            &mut res,
            &expected,
            &boundaries,
            "after shutdown/drop",
            &mut max_files,
            &mut saw_restart,
            advanced_seconds,
        );
    }
    res.absorb_panics("C01", "during a single-thread history");
    ctl::uninstall();
    ctl::clock_unset();

    res.count("comparisons", comparisons);
    res.count("rotations_seen", max_files.saturating_sub(1) as u64);
    res.count("triggers", triggers);
    if saw_restart {
        res.count("cases_with_restart_suffix", 1);
    }
    res.nontrivial = max_files >= 2 && comparisons >= 1;
    let bucket = match max_files {
        0..=1 => "r0",
        2..=4 => "r1-3",
        5..=20 => "r4-19",
        _ => "r20+",
    };
    res.shape = format!(
        "{shape_base}|{bucket}|{}|{}",
        if saw_restart { "restart" } else { "-" },
        if triggers > 0 { "trigger" } else { "-" }
    );
    if ctx.case < 2 || res.verdict != crate::util::Verdict::Held {
        res.sample = Some(json!({
            "config": cfg.to_json(),
            "virtual_clock": virtual_clock,
            "ops": ops.iter().take(40).map(|o| format!("{o:?}")).collect::<Vec<_>>(),
            "n_ops": ops.len(),
            "files_at_end": max_files,
            "expected_stream_len": expected.len(),
        }));
    }
    res
}
