//! C11 — a killed process loses no acknowledged direct-mode record and restarts cleanly.
//! A child runs a scripted Direct-mode history; step 1 records the fs-point trace, step 2 re-runs
//! the history once per crash point (the n-th fs point overall) with `_exit` *before* that
//! file-system effect, step 3 kills with SIGKILL at random instants; after each crash a second
//! child restarts a logger on the same directory. Oracle: Appendix D.

use crate::child::{self, AckFile, ChildArgs};
use crate::ctl;
use crate::family::{self, DirObs, NameCfg, NamingK};
use crate::flw::{self, Clean, Crit, Driver, FlwCfg, FmtK, WMode};
use crate::rng::Rng;
use crate::util::{CaseCtx, CaseResult, Verdict};
use serde_json::json;
use std::path::Path;
use std::time::Duration;

#[derive(Clone, Debug)]
enum Op {
    Write(usize),
    Trigger,
    Tick,
    /// reopen_output() with the file still in place (a SIGHUP handler that fires although the
    /// external rotator had nothing to do): changes nothing about where the records are
    Reopen,
}

#[derive(Clone, Debug)]
struct Scenario {
    cfg: FlwCfg,
    ops: Vec<Op>,
    restart_append: bool,
    restart_records: u64,
    t0: i64,
}

fn gen(rng: &mut Rng, dir: &Path, thorough: bool) -> Scenario {
    let rotation = !rng.chance(1, 8);
    let naming = if rotation {
        flw::gen_naming(rng, true)
    } else {
        NamingK::NoRotation
    };
    let names = NameCfg {
        dir: dir.join("logs"),
        basename: (*rng.pick(&["app", "x", "my_prog"])).to_string(),
        discr: if rng.chance(1, 3) { Some("D".into()) } else { None },
        start_ts: None,
        suffix: match rng.below(4) {
            0 => None,
            1 => Some("txt".into()),
            _ => Some("log".into()),
        },
        naming,
    };
    let clean = if rotation {
        match rng.below(6) {
            0 => Clean::Logs(rng.range(0, 3) as usize),
            1 | 2 => Clean::Gz(rng.range(0, 3) as usize),
            3 => Clean::Both(rng.range(0, 2) as usize, rng.range(0, 2) as usize),
            _ => Clean::Never,
        }
    } else {
        Clean::Never
    };
    let cfg = FlwCfg {
        names,
        use_ts: false,
        crit: if rotation {
            Some(Crit::Size(*rng.pick(&[0u64, 40, 150])))
        } else {
            None
        },
        clean,
        // synchronous cleanup: the (point, occurrence) numbering of a history is deterministic
        clean_bg: false,
        wmode: if rng.chance(1, 4) { WMode::SupportCapture } else { WMode::Direct },
        crlf: false,
        append: !rotation || rng.chance(1, 2),
        symlink: if rng.chance(1, 3) { Some(dir.join("current.lnk")) } else { None },
        use_utc: false,
        max_level: log::LevelFilter::Trace,
        fmt: FmtK::Raw,
        l2: rng.chance(1, 3),
    };
    let n = rng.range(6, if thorough { 40 } else { 24 }) as usize;
    let mut ops = Vec::new();
    for _ in 0..n {
        ops.push(match rng.below(10) {
            0 if rotation => Op::Trigger,
            1 => Op::Tick,
            2 if rng.chance(1, 2) => Op::Reopen,
            _ => Op::Write(rng.usize(50)),
        });
    }
    Scenario {
        cfg,
        ops,
        restart_append: !rotation || rng.chance(1, 2),
        restart_records: rng.range(1, 6) as u64,
        t0: flw::base_time_ns(rng),
    }
}

// ------------------------------------------------------------------------------------------
// child roles

pub fn child_main(a: &ChildArgs) -> i32 {
    let mut ctx = child::ctx_of(a);
    let sc = gen(&mut ctx.rng, &a.dir, ctx.thorough);
    let run: u64 = if a.role == "restart" { 1 } else { 0 };
    // every child has its own error-channel file: the restarted logger must leave it empty
    let errchan = a.dir.join(format!("errchan_{}.txt", a.role));
    let _ = std::fs::remove_file(&errchan);
    let _ = flexi_logger::Logger::with(flexi_logger::LogSpecification::off())
        .do_not_log()
        .error_channel(flexi_logger::ErrorChannel::File(errchan.clone()))
        .build();
    let clock0 = if run == 0 {
        sc.t0
    } else {
        // the restart happens a little later than the last thing run 0 did; sometimes within
        // the same second
        let ticks = sc.ops.iter().filter(|o| matches!(o, Op::Tick)).count() as i64;
        sc.t0 + ticks * 1_000_000_000 + a.xu("restart_offset_ns").unwrap_or(0) as i64
    };
    flw::install_virtual(clock0);
    if run == 1 {
        // the creation-time table (the virtual birth times) does not survive the process: files
        // left by the killed run were created before this run started
        let ticks = sc.ops.iter().filter(|o| matches!(o, Op::Tick)).count() as i64;
        let born = sc.t0 + ticks * 1_000_000_000;
        if let Ok(rd) = std::fs::read_dir(&sc.cfg.names.dir) {
            for e in rd.flatten() {
                ctl::creation_register(&e.path(), born);
            }
        }
    }
    match a.role.as_str() {
        "trace" => ctl::with_ctl(|c| c.tracing = true),
        "abort" => {
            let at = a.xu("at").unwrap_or(0) as u32;
            ctl::with_ctl(|c| c.abort_at_total = Some(at));
        }
        _ => {}
    }
    let mut cfg = sc.cfg.clone();
    if run == 1 {
        cfg.append = sc.restart_append;
    }
    let mut driver = match Driver::build(&cfg) {
        Ok(d) => d,
        Err(e) => {
            eprintln!("FLMON-CHILD build failed: {e}");
            return 4;
        }
    };
    let Ok(mut acks) = AckFile::create(&a.dir.join(format!("acks_{}.txt", a.role))) else {
        return 5;
    };
    if run == 0 {
        let mut seq = 0u64;
        for op in &sc.ops {
            match op {
                Op::Write(len) => {
                    let m = flw::msg_id(0, 0, seq, *len);
                    // announce the call, then acknowledge it after it returned
                    acks.ack(&format!("call {seq}"));
                    driver.write(log::Level::Info, &m);
                    acks.ack(&format!("ack {seq}"));
                    seq += 1;
                }
                Op::Trigger => {
                    let _ = driver.rotate();
                }
                Op::Tick => ctl::clock_advance(1_000_000_000),
                Op::Reopen => {
                    let _ = driver.reopen();
                }
            }
        }
    } else {
        for seq in 0..sc.restart_records {
            let m = flw::msg_id(1, 0, seq, 12);
            driver.write(log::Level::Info, &m);
            acks.ack(&format!("ack {seq}"));
        }
    }
    driver.shutdown();
    // an L2 logger points the process-global error channel at the harness' own file: merge it
    let more = flw::take_error_channel();
    if !more.is_empty() {
        use std::io::Write;
        if let Ok(mut f) = std::fs::OpenOptions::new().create(true).append(true).open(&errchan) {
            for l in more {
                let _ = writeln!(f, "{l}");
            }
        }
    }
    if a.role == "trace" {
        let total = ctl::with_ctl(|c| c.total);
        let names: Vec<String> = ctl::with_ctl(|c| {
            c.trace
                .iter()
                .filter(|e| ctl::is_fs_point(&e.name))
                .map(|e| e.name.clone())
                .collect()
        });
        let _ = std::fs::write(
            a.dir.join("trace.json"),
            json!({"total": total, "points": names}).to_string(),
        );
    }
    0
}

// ------------------------------------------------------------------------------------------
// parent

fn acks_of(dir: &Path, role: &str) -> (Vec<u64>, Option<u64>) {
    let text = std::fs::read_to_string(dir.join(format!("acks_{role}.txt"))).unwrap_or_default();
    let mut acked = Vec::new();
    let mut last_call = None;
    for l in text.lines() {
        if let Some(v) = l.strip_prefix("ack ") {
            if let Ok(s) = v.parse() {
                acked.push(s);
            }
        } else if let Some(v) = l.strip_prefix("call ") {
            last_call = v.parse().ok();
        }
    }
    (acked, last_call)
}

fn reset_dir(dir: &Path) {
    let _ = std::fs::remove_dir_all(dir.join("logs"));
    for f in ["current.lnk", "acks_abort.txt", "acks_restart.txt", "acks_kill.txt", "acks_trace.txt"] {
        let _ = std::fs::remove_file(dir.join(f));
    }
}

/// merges a plain file with its .gz twin (legal right after a kill inside compression)
fn stream_with_twins(obs: &DirObs) -> Result<(Vec<u8>, u64, usize), String> {
    let mut out = Vec::new();
    let mut twins = 0u64;
    let mut files = 0usize;
    let mut i = 0;
    while i < obs.family.len() {
        let f = &obs.family[i];
        let twin = obs
            .family
            .get(i + 1)
            .filter(|g| g.entry.kind == f.entry.kind && g.entry.gz != f.entry.gz);
        if let Some(g) = twin {
            twins += 1;
            let (plain, gz) = if f.entry.gz { (g, f) } else { (f, g) };
            let pc = plain.content.clone().map_err(|e| e.to_string())?;
            // a complete twin must decode to the original; an incomplete one may not decode
            if let Ok(gc) = &gz.content {
                if !gc.is_empty() && *gc != pc && gc.len() >= pc.len() {
                    return Err(format!(
                        "{} decodes to something else than {}",
                        gz.entry.name, plain.entry.name
                    ));
                }
            }
            out.extend_from_slice(&pc);
            i += 2;
        } else {
            match &f.content {
                Ok(c) => out.extend_from_slice(c),
                Err(e) => return Err(format!("{}: {e} (and no plain twin)", f.entry.name)),
            }
            i += 1;
        }
        files += 1;
    }
    Ok((out, twins, files))
}

struct Judged {
    twins: u64,
}

/// Appendix D (1)-(3): ids of run 0 after a crash
fn judge_after_crash(
    sc: &Scenario,
    acked: &[u64],
    last_call: Option<u64>,
    sigkill: bool,
) -> Result<Judged, (String, String)> {
    let obs = match family::observe(&sc.cfg.names) {
        Ok(o) => o,
        Err(_) if acked.is_empty() => return Ok(Judged { twins: 0 }),
        Err(e) => return Err(("log-directory-unreadable".into(), e.to_string())),
    };
    if !obs.foreign.is_empty() {
        return Err(("foreign-file".into(), format!("{:?}", obs.foreign)));
    }
    let (stream, twins, files) = stream_with_twins(&obs).map_err(|e| ("twin-mismatch".to_string(), e))?;
    // parse: whole lines; SIGKILL may leave a strict prefix of the in-flight line at the very end
    let mut ids: Vec<u64> = Vec::new();
    let text = String::from_utf8_lossy(&stream).to_string();
    let mut rest = text.as_str();
    while !rest.is_empty() {
        match rest.find('\n') {
            Some(p) => {
                let line = &rest[..p];
                match flw::parse_msg_id(line) {
                    Some((0, 0, s)) => ids.push(s),
                    _ => {
                        return Err((
                            "damaged-line".into(),
                            format!("not an intact record: {:?}", line.chars().take(80).collect::<String>()),
                        ))
                    }
                }
                rest = &rest[p + 1..];
            }
            None => {
                let inflight = last_call.map(|s| flw::msg_id(0, 0, s, 0));
                let is_prefix_of_inflight = sigkill
                    && last_call.is_some()
                    && inflight
                        .as_ref()
                        .map(|m| {
                            let id_part = m.split('|').next().unwrap_or("");
                            rest.starts_with(id_part) || id_part.starts_with(rest)
                        })
                        .unwrap_or(false);
                if !is_prefix_of_inflight {
                    return Err((
                        "partial-line".into(),
                        format!("the output ends with a partial line {:?}", rest.chars().take(60).collect::<String>()),
                    ));
                }
                break;
            }
        }
    }
    // order, exactly once
    for w in ids.windows(2) {
        if w[1] <= w[0] {
            return Err((
                "duplicate-or-reordered".into(),
                format!("ids {} then {} in the files", w[0], w[1]),
            ));
        }
    }
    // unacknowledged ids: at most the in-flight one
    let max_acked = acked.iter().max().copied();
    for s in &ids {
        if !acked.contains(s) && Some(*s) != last_call {
            return Err((
                "unknown-id".into(),
                format!("id {s} is in the files but its call was never started"),
            ));
        }
    }
    let _ = max_acked;
    // acknowledged ids: present, or a prefix removed by the cleanup limit
    let missing: Vec<u64> = acked.iter().copied().filter(|s| !ids.contains(s)).collect();
    if !missing.is_empty() {
        let first_present = ids.first().copied().unwrap_or(u64::MAX);
        let prefix_only = missing.iter().all(|m| *m < first_present);
        let limit = sc.cfg.clean.limits();
        let explained = match limit {
            None => false,
            Some((k, m)) => {
                let delta = usize::from(sc.cfg.names.naming.is_direct());
                prefix_only && files + delta + 1 >= k + m
            }
        };
        if !explained {
            return Err((
                "acknowledged-record-lost".into(),
                format!(
                    "acknowledged ids {:?} are missing (present: {} ids in {files} files, cleanup {:?})",
                    missing.iter().take(8).collect::<Vec<_>>(),
                    ids.len(),
                    sc.cfg.clean
                ),
            ));
        }
    }
    Ok(Judged { twins })
}

/// Appendix D (4): after the restarted logger finished
fn judge_after_restart(
    sc: &Scenario,
    acked0: &[u64],
    last_call: Option<u64>,
    restart: &child::ChildOut,
    dir: &Path,
) -> Result<(), (String, String)> {
    if !restart.clean_exit() {
        return Err((
            "restart-failed".into(),
            format!(
                "{}; stderr: {}",
                restart.describe(),
                String::from_utf8_lossy(&restart.stderr[restart.stderr.len().saturating_sub(300)..])
            ),
        ));
    }
    let err_lines: Vec<String> = std::fs::read_to_string(dir.join("errchan_restart.txt"))
        .unwrap_or_default()
        .lines()
        .filter(|l| l.contains("ERRCODE") && !l.contains("Palette"))
        .map(str::to_string)
        .collect();
    if !err_lines.is_empty() {
        return Err((
            "restart-reports-errors".into(),
            format!("error channel of the restarted logger: {:?}", err_lines.iter().take(3).collect::<Vec<_>>()),
        ));
    }
    let obs = family::observe(&sc.cfg.names).map_err(|e| ("log-directory-unreadable".to_string(), e.to_string()))?;
    if !obs.foreign.is_empty() {
        return Err(("foreign-file".into(), format!("{:?}", obs.foreign)));
    }
    // a configured symlink leads to the file the restarted logger wrote to last
    if let Some(link) = &sc.cfg.symlink {
        let last = flw::msg_id(1, 0, sc.restart_records.saturating_sub(1), 12);
        let holder = obs
            .family
            .iter()
            .filter(|f| !f.entry.gz)
            .find(|f| f.content.as_ref().is_ok_and(|c| String::from_utf8_lossy(c).contains(&last)))
            .map(|f| sc.cfg.names.dir.join(&f.entry.name));
        if let Some(holder) = holder {
            let target = std::fs::read_link(link).ok().map(|t| {
                if t.is_absolute() {
                    t
                } else {
                    link.parent().map(|p| p.join(&t)).unwrap_or(t)
                }
            });
            let same = target
                .as_ref()
                .and_then(|t| std::fs::canonicalize(t).ok())
                .zip(std::fs::canonicalize(&holder).ok())
                .is_some_and(|(a, b)| a == b);
            if !same {
                return Err((
                    "symlink-stale-after-restart".into(),
                    format!(
                        "the symlink {} leads to {:?}, the last record of the restarted logger is in {}",
                        link.display(),
                        target,
                        holder.display()
                    ),
                ));
            }
        }
    }
    let (stream, _, files) = stream_with_twins(&obs).map_err(|e| ("twin-mismatch".to_string(), e))?;
    let mut ids: Vec<(u64, u64)> = Vec::new();
    for line in String::from_utf8_lossy(&stream).split('\n') {
        if line.is_empty() {
            continue;
        }
        match flw::parse_msg_id(line) {
            Some((r, 0, s)) => ids.push((r, s)),
            _ => {
                // the in-flight record of the killed run may have been left partial (SIGKILL)
                let ok = last_call
                    .map(|s| flw::msg_id(0, 0, s, 0).split('|').next().map(|p| line.starts_with(p) || p.starts_with(line)).unwrap_or(false))
                    .unwrap_or(false);
                if !ok {
                    return Err((
                        "damaged-line".into(),
                        format!("after restart: {:?}", line.chars().take(80).collect::<String>()),
                    ));
                }
            }
        }
    }
    for w in ids.windows(2) {
        if w[1] <= w[0] {
            return Err((
                "duplicate-or-reordered".into(),
                format!("after restart: {:?} then {:?}", w[0], w[1]),
            ));
        }
    }
    let truncation_documented = sc.cfg.crit.is_none() && !sc.restart_append;
    // everything that must be there: the acknowledged records of the killed run (unless the
    // documented truncation applies), then all records of the restarted logger; what is missing
    // must be an oldest prefix explained by the cleanup limit
    let mut expected: Vec<(u64, u64)> = Vec::new();
    if !truncation_documented {
        expected.extend(acked0.iter().map(|s| (0u64, *s)));
    }
    expected.extend((0..sc.restart_records).map(|s| (1u64, s)));
    let missing: Vec<(u64, u64)> = expected.iter().copied().filter(|e| !ids.contains(e)).collect();
    if !missing.is_empty() {
        let first_present = ids.first().copied().unwrap_or((u64::MAX, u64::MAX));
        let prefix_only = missing.iter().all(|m| *m < first_present);
        let explained = match sc.cfg.clean.limits() {
            None => false,
            Some((k, m)) => {
                let delta = usize::from(sc.cfg.names.naming.is_direct());
                prefix_only && files + delta + 1 >= k + m
            }
        };
        // the newest record is in the file currently written to, which is never removed
        let newest_lost = missing.contains(&(1, sc.restart_records - 1));
        if !explained || newest_lost {
            let kind = if missing.iter().any(|m| m.0 == 1) {
                "new-record-missing"
            } else {
                "earlier-record-lost-by-restart"
            };
            return Err((
                kind.into(),
                format!(
                    "(run, id) {:?} missing after the restart; present {} ids in {files} files, cleanup {:?}",
                    missing.iter().take(8).collect::<Vec<_>>(),
                    ids.len(),
                    sc.cfg.clean
                ),
            ));
        }
    }
    Ok(())
}

const STRACE_CALLS: &[&str] = &[
    "rename", "renameat", "renameat2", "unlink", "unlinkat", "symlink", "symlinkat", "openat", "write",
    "ftruncate",
];

/// `(syscall, n)`: the n-th invocation of that system call (counted per thread, as strace does)
/// names the log directory
fn strace_points(trace: &str, logs: &str) -> Vec<(String, u32)> {
    let mut counters: std::collections::HashMap<(String, String), u32> = std::collections::HashMap::new();
    let mut out = Vec::new();
    for line in trace.lines() {
        let mut it = line.splitn(2, ' ');
        let (Some(pid), Some(rest)) = (it.next(), it.next()) else { continue };
        let rest = rest.trim_start();
        // (a resumed call was counted when it was entered)
        if rest.starts_with("<...") || rest.starts_with("---") || rest.starts_with("+++") {
            continue;
        }
        let Some(paren) = rest.find('(') else { continue };
        let name = &rest[..paren];
        if !STRACE_CALLS.contains(&name) {
            continue;
        }
        let c = counters.entry((pid.to_string(), name.to_string())).or_insert(0);
        *c += 1;
        if rest.contains(logs) {
            out.push((name.to_string(), *c));
        }
    }
    out.sort();
    out.dedup();
    out
}

fn strace_kills(
    ctx: &CaseCtx,
    sc: &Scenario,
    dir: &Path,
    facts: &str,
    rng: &mut Rng,
    res: &mut CaseResult,
) {
    let spawn_under = |role: &str, wrapper: &[String], extra: Vec<(String, String)>| {
        child::spawn_wrapped(
            &child::Spawn {
                ctx,
                role,
                extra,
                env: vec![],
                timeout: Duration::from_secs(40),
                tag: role,
                cwd: None,
                kill_after: None,
            },
            wrapper,
        )
    };
    let w = |v: &[&str]| v.iter().map(|s| (*s).to_string()).collect::<Vec<String>>();
    // the counting run
    reset_dir(dir);
    let trace_file = dir.join("strace_count.txt");
    let _ = std::fs::remove_file(&trace_file);
    let tf = trace_file.to_string_lossy().to_string();
    let calls = STRACE_CALLS.join(",");
    let counted = spawn_under(
        "kill",
        &w(&["strace", "-f", "-y", "-qq", "--seccomp-bpf", "-o", &tf, "-e", &format!("trace={calls}")]),
        vec![],
    );
    let usable = matches!(&counted, Ok(o) if o.clean_exit()) && trace_file.exists();
    if !usable {
        res.count("strace_unavailable", 1);
        return;
    }
    let logs = sc.cfg.names.dir.to_string_lossy().to_string();
    let text = std::fs::read_to_string(&trace_file).unwrap_or_default();
    let mut points = strace_points(&text, &logs);
    let _ = std::fs::remove_file(&trace_file);
    res.count("strace_kill_points_in_histories", points.len() as u64);
    if points.is_empty() {
        return;
    }
    let all = ctx.thorough && points.len() <= 80;
    if !all {
        for i in (1..points.len()).rev() {
            let j = rng.usize(i + 1);
            points.swap(i, j);
        }
        points.truncate(if ctx.thorough { 40 } else { 8 });
    } else {
        res.count("histories_with_all_strace_kill_points_enumerated", 1);
    }
    for (call, n) in points {
        reset_dir(dir);
        let kl = match spawn_under(
            "kill",
            &w(&[
                "strace",
                "-f",
                "-qq",
                "-o",
                "/dev/null",
                "-e",
                &format!("trace={call}"),
                "-e",
                &format!("inject={call}:signal=KILL:when={n}"),
            ]),
            vec![],
        ) {
            Ok(o) => o,
            Err(_) => {
                res.count("strace_unavailable", 1);
                return;
            }
        };
        if kl.timed_out {
            res.count("strace_runs_over_the_watchdog", 1);
            continue;
        }
        if kl.code == Some(0) {
            // (counted in another thread than the one that gets there first, or not reached)
            res.count("strace_kill_point_not_reached", 1);
            continue;
        }
        if kl.signal != Some(9) && kl.code != Some(137) {
            res.count("strace_runs_ended_otherwise", 1);
            continue;
        }
        res.count("strace_kill_runs", 1);
        res.add_to_set("strace_kill_points_executed", call.clone());
        let (acked, last_call) = acks_of(dir, "kill");
        if let Err((kind, detail)) = judge_after_crash(sc, &acked, last_call, true) {
            res.violate(
                &kind,
                format!("C11/after-syscall-kill/{kind}/at-{call}/{facts}"),
                format!("SIGKILL at the entry of {call} #{n} (delivered by strace; the call is not executed): {detail}"),
            );
            return;
        }
        let off = *rng.pick(&[0u64, 200_000_000, 1_000_000_000, 90_000_000_000]);
        let rs = match spawn_under("restart", &[], vec![("restart_offset_ns".into(), off.to_string())]) {
            Ok(o) => o,
            Err(_) => return,
        };
        if let Err((kind, detail)) = judge_after_restart(sc, &acked, last_call, &rs, dir) {
            res.violate(
                &kind,
                format!("C11/after-syscall-kill-restart/{kind}/at-{call}/{facts}"),
                format!("SIGKILL at the entry of {call} #{n}, then restart (append={}): {detail}", sc.restart_append),
            );
            return;
        }
        res.count("restarts_judged", 1);
    }
}

pub fn run_case(ctx: &mut CaseCtx) -> CaseResult {
    let sc = gen(&mut ctx.rng, &ctx.dir, ctx.thorough);
    let dir = ctx.dir.clone();
    let mut res = CaseResult::new(format!(
        "{}|{}|{}|{}|restart-{}",
        if sc.cfg.l2 { "L2" } else { "L1" },
        sc.cfg.names.naming.label(),
        sc.cfg.clean.label(),
        if sc.cfg.symlink.is_some() { "symlink" } else { "-" },
        if sc.restart_append { "append" } else { "noappend" },
    ));
    let facts = format!(
        "naming={}/cleanup={}/restart-{}",
        sc.cfg.names.naming.label(),
        sc.cfg.clean.label(),
        if sc.restart_append { "append" } else { "noappend" }
    );
    let rng_seed = ctx.rng.next();
    let ctx: &CaseCtx = ctx;
    let spawn = |role: &str, extra: Vec<(String, String)>, kill: Option<Duration>| {
        child::spawn(&child::Spawn {
            ctx,
            role,
            extra,
            env: vec![],
            timeout: Duration::from_secs(20),
            tag: role,
            cwd: None,
            kill_after: kill,
        })
    };
    // step 1: trace
    reset_dir(&dir);
    let tr = match spawn("trace", vec![], None) {
        Ok(o) => o,
        Err(e) => {
            res.inconclusive(format!("cannot spawn: {e}"));
            return res;
        }
    };
    if !tr.clean_exit() {
        res.violate(
            "trace-run-failed",
            format!("C11/trace-run-failed/{facts}"),
            format!("{}; {}", tr.describe(), String::from_utf8_lossy(&tr.stderr)),
        );
        return res;
    }
    let trace: serde_json::Value = std::fs::read_to_string(dir.join("trace.json"))
        .ok()
        .and_then(|t| serde_json::from_str(&t).ok())
        .unwrap_or_else(|| json!({"total": 0, "points": []}));
    let total = trace["total"].as_u64().unwrap_or(0);
    if total == 0 {
        res.inconclusive("the trace run hit no fs point");
        return res;
    }
    if let Some(arr) = trace["points"].as_array() {
        for p in arr {
            if let Some(n) = p.as_str() {
                res.add_to_set("point_kinds_in_traces", n);
            }
        }
    }
    // step 2: crash points
    let rng = &mut crate::rng::Rng(rng_seed);
    let mut ks: Vec<u64> = (1..=total).collect();
    let exhaustive = ctx.thorough && ctx.case % 2 == 0;
    if !exhaustive {
        for i in (1..ks.len()).rev() {
            let j = rng.usize(i + 1);
            ks.swap(i, j);
        }
        ks.truncate(if ctx.thorough { 40 } else { 10 });
    } else {
        res.count("histories_with_all_crash_points_enumerated", 1);
    }
    let mut crash_runs = 0u64;
    let mut twins_seen = 0u64;
    let restart_offsets = [0u64, 200_000_000, 1_000_000_000, 3_000_000_000, 90_000_000_000];
    for k in ks {
        reset_dir(&dir);
        let ab = match spawn("abort", vec![("at".into(), k.to_string())], None) {
            Ok(o) => o,
            Err(e) => {
                res.inconclusive(format!("cannot spawn: {e}"));
                break;
            }
        };
        if ab.code != Some(77) {
            if ab.timed_out {
                res.inconclusive("abort child exceeded the watchdog");
                break;
            }
            if ab.code == Some(0) {
                // the point was not reached this time (should not happen: numbering is deterministic)
                res.count("crash_point_not_reached", 1);
                continue;
            }
            res.violate(
                "child-died-otherwise",
                format!("C11/child-died-otherwise/{facts}"),
                format!("crash point {k}: {}; {}", ab.describe(), String::from_utf8_lossy(&ab.stderr)),
            );
            break;
        }
        crash_runs += 1;
        let point_name = trace["points"][(k - 1) as usize].as_str().unwrap_or("?").to_string();
        res.add_to_set("crash_points_executed", point_name.clone());
        let (acked, last_call) = acks_of(&dir, "abort");
        match judge_after_crash(&sc, &acked, last_call, false) {
            Ok(j) => twins_seen += j.twins,
            Err((kind, detail)) => {
                res.violate(
                    &kind,
                    format!("C11/after-crash/{kind}/at-{point_name}/{facts}"),
                    format!("crash before fs point #{k} ({point_name}): {detail}"),
                );
                break;
            }
        }
        // the restarted logger
        let off = *rng.pick(&restart_offsets);
        let rs = match spawn("restart", vec![("restart_offset_ns".into(), off.to_string())], None) {
            Ok(o) => o,
            Err(e) => {
                res.inconclusive(format!("cannot spawn: {e}"));
                break;
            }
        };
        if let Err((kind, detail)) = judge_after_restart(&sc, &acked, last_call, &rs, &dir) {
            res.violate(
                &kind,
                format!("C11/after-restart/{kind}/at-{point_name}/{facts}"),
                format!("crash before fs point #{k} ({point_name}), then restart (append={}): {detail}", sc.restart_append),
            );
            break;
        }
        res.count("restarts_judged", 1);
    }
    // step 3: SIGKILL at random instants
    let kills = if res.verdict != Verdict::Held {
        0
    } else if ctx.thorough {
        6
    } else {
        2
    };
    let mut kill_runs = 0u64;
    for _ in 0..kills {
        reset_dir(&dir);
        let after = Duration::from_micros(rng.range(300, 6000) as u64);
        // the kill role runs the same history as "abort" without a plan
        let kl = match spawn("kill", vec![], Some(after)) {
            Ok(o) => o,
            Err(_) => break,
        };
        if kl.code == Some(0) {
            res.count("sigkill_too_late", 1);
        }
        kill_runs += 1;
        let (acked, last_call) = acks_of(&dir, "kill");
        match judge_after_crash(&sc, &acked, last_call, true) {
            Ok(j) => twins_seen += j.twins,
            Err((kind, detail)) => {
                res.violate(
                    &kind,
                    format!("C11/after-sigkill/{kind}/{facts}"),
                    format!("SIGKILL after {after:?}: {detail}"),
                );
                break;
            }
        }
        let rs = match spawn("restart", vec![("restart_offset_ns".into(), "1000000000".into())], None) {
            Ok(o) => o,
            Err(_) => break,
        };
        if let Err((kind, detail)) = judge_after_restart(&sc, &acked, last_call, &rs, &dir) {
            res.violate(
                &kind,
                format!("C11/after-sigkill-restart/{kind}/{facts}"),
                format!("SIGKILL after {after:?}, then restart: {detail}"),
            );
            break;
        }
    }
    // step 4: kill points that do not depend on the crate's hooks: the history runs under strace,
    // which delivers SIGKILL at the entry of the n-th rename / unlink / symlink / openat / write
    // that touches the log directory (the system call is not executed any more)
    if res.verdict == Verdict::Held && ctx.case % 2 == 1 {
        strace_kills(ctx, &sc, &dir, &facts, rng, &mut res);
    }
    res.count("fs_points_in_traces", total);
    res.count("crash_runs", crash_runs);
    res.count("sigkill_runs", kill_runs);
    res.count("twins_tolerated", twins_seen);
    res.nontrivial = crash_runs >= 1;
    if ctx.case < 2 || res.verdict != Verdict::Held {
        res.sample = Some(json!({
            "config": sc.cfg.to_json(),
            "ops": sc.ops.iter().map(|o| format!("{o:?}")).collect::<Vec<_>>(),
            "restart_append": sc.restart_append,
            "fs_points": total,
            "trace": trace["points"],
        }));
    }
    res
}
