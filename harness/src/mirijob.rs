//! Tiny workloads for interpreters/sanitizers (Miri with many scheduler seeds, TSan): the same
//! in-process oracles as C03 / C04 / C12 on very small inputs. One job = one process.
//! `flmon mirijob <kind> <seed> <dir>` prints `MIRIJOB ok …` or `MIRIJOB VIOLATION …`.

use crate::flw::{self, Clean, Crit, Driver, FlwCfg, FmtK, WMode};
use crate::family::{self, NameCfg, NamingK};
use crate::p_c03::check_stream;
use crate::rng::Rng;
use crate::spec::{self, RecWriter, Recorder};
use flexi_logger::Logger;
use std::path::Path;
use std::sync::Arc;

fn cfg(rng: &mut Rng, dir: &Path, wmode: WMode) -> FlwCfg {
    FlwCfg {
        names: NameCfg {
            dir: dir.to_path_buf(),
            basename: "m".into(),
            discr: None,
            start_ts: None,
            suffix: Some("log".into()),
            naming: match rng.below(3) {
                0 => NamingK::Numbers,
                1 => NamingK::NumbersDirect,
                _ => NamingK::Timestamps,
            },
        },
        use_ts: false,
        crit: Some(Crit::Size(40)),
        clean: Clean::Never,
        clean_bg: false,
        wmode,
        crlf: false,
        append: false,
        symlink: None,
        use_utc: false,
        max_level: log::LevelFilter::Trace,
        fmt: FmtK::Raw,
        l2: rng.chance(1, 2),
    }
}

pub fn run(kind: &str, seed: u64, dir: &Path) -> i32 {
    let _ = std::fs::remove_dir_all(dir);
    let _ = std::fs::create_dir_all(dir);
    let mut rng = Rng::for_case(seed, kind, 0, 0);
    match kind {
        "c03" | "c04" => {
            let wmode = match rng.below(3) {
                0 => WMode::Direct,
                1 => WMode::BufDont(32),
                _ => WMode::Async {
                    pool: 1,
                    msg: 8,
                    flush_ms: 0,
                },
            };
            let c = cfg(&mut rng, dir, wmode);
            let d = match Driver::build(&c) {
                Ok(d) => Arc::new(d),
                Err(e) => {
                    println!("MIRIJOB inconclusive build {e}");
                    return 2;
                }
            };
            let threads = 3usize;
            let per = 4u64;
            let mut joins = Vec::new();
            for t in 0..threads {
                let d = Arc::clone(&d);
                joins.push(std::thread::spawn(move || {
                    for s in 0..per {
                        d.write(log::Level::Info, &flw::msg_id(7, t as u64, s, (s as usize * 5) % 17));
                    }
                }));
            }
            for j in joins {
                let _ = j.join();
            }
            match Arc::try_unwrap(d) {
                Ok(mut d) => d.shutdown(),
                Err(_) => {
                    println!("MIRIJOB inconclusive shared");
                    return 2;
                }
            }
            let obs = match family::observe(&c.names) {
                Ok(o) => o,
                Err(e) => {
                    println!("MIRIJOB inconclusive observe {e}");
                    return 2;
                }
            };
            let stream = obs.stream().unwrap_or_default();
            match check_stream(&stream, 7, &vec![per; threads], b"\n") {
                Ok(rep) => {
                    println!(
                        "MIRIJOB ok kind={kind} seed={seed} mode={} lines={} files={} fingerprint={:016x}",
                        c.wmode.label(),
                        rep.lines,
                        obs.family.len(),
                        rep.fingerprint
                    );
                    0
                }
                Err((k, d)) => {
                    println!("MIRIJOB VIOLATION kind={kind} seed={seed} {k}: {d}");
                    1
                }
            }
        }
        "c12" => {
            let sink = Recorder::default();
            let init = spec::gen_mspec(&mut rng, false, false);
            let a = spec::gen_mspec(&mut rng, false, false);
            let b = spec::gen_mspec(&mut rng, false, false);
            let built = Logger::with(init.to_real_via_builder())
                .log_to_writer(Box::new(RecWriter {
                    rec: sink,
                    ceiling: log::LevelFilter::Trace,
                    honour_ceiling: false,
                }))
                .error_channel(flexi_logger::ErrorChannel::DevNull)
                .build();
            let Ok((boxed, handle)) = built else {
                println!("MIRIJOB inconclusive build");
                return 2;
            };
            let (h1, h2) = (handle.clone(), handle.clone());
            let (ra, rb) = (a.to_real_via_builder(), b.to_real_via_builder());
            let t1 = std::thread::spawn(move || {
                h1.set_new_spec(ra);
                h1
            });
            let t2 = std::thread::spawn(move || {
                h2.set_new_spec(rb);
                h2
            });
            let k1 = t1.join();
            let k2 = t2.join();
            let cands = [a.with_builder_default(), b.with_builder_default()];
            let targets = spec::grid_targets(&[&cands[0], &cands[1]]);
            let max = log::max_level();
            let mut ok = false;
            'c: for c in &cands {
                for t in &targets {
                    for l in spec::LEVELS {
                        let m = log::Metadata::builder().level(l).target(t).build();
                        if boxed.enabled(&m) != c.enabled(l, t) {
                            continue 'c;
                        }
                        if c.enabled(l, t) && l > max {
                            continue 'c;
                        }
                    }
                }
                ok = true;
                break;
            }
            drop((k1, k2));
            drop(handle);
            drop(boxed);
            if ok {
                println!("MIRIJOB ok kind=c12 seed={seed} max={max}");
                0
            } else {
                println!("MIRIJOB VIOLATION kind=c12 seed={seed} final state matches no submitted spec with an admitting gate (max {max})");
                1
            }
        }
        // flush() while other threads log (C04): the marker must be in the file when flush returns
        "c04flush" => {
            let mut c = cfg(&mut rng, dir, WMode::BufDont(4096));
            c.names.naming = NamingK::NoRotation;
            c.crit = None;
            c.l2 = true;
            let built = c.logger().format(flw::fmt_raw).build();
            let Ok((boxed, handle)) = built else {
                println!("MIRIJOB inconclusive build");
                return 2;
            };
            let boxed: Arc<Box<dyn log::Log>> = Arc::new(boxed);
            let mut joins = Vec::new();
            for t in 1..=2u64 {
                let b = Arc::clone(&boxed);
                joins.push(std::thread::spawn(move || {
                    for s in 0..4u64 {
                        let m = flw::msg_id(7, t, s, 5);
                        flw::with_record(log::Level::Info, "flmon::m", &m, |r| b.log(r));
                    }
                }));
            }
            let path = c.names.path("");
            let mut bad = None;
            for k in 0..2u64 {
                let m = flw::msg_id(7, 0, k, 5);
                flw::with_record(log::Level::Info, "flmon::m", &m, |r| boxed.log(r));
                handle.flush();
                let content = std::fs::read(&path).unwrap_or_default();
                let needle = format!("{m}\n");
                if !content.windows(needle.len()).any(|w| w == needle.as_bytes()) {
                    bad = Some(format!("record {m} is not in the file after flush() returned"));
                    break;
                }
            }
            for j in joins {
                let _ = j.join();
            }
            handle.shutdown();
            let content = std::fs::read(&path).unwrap_or_default();
            drop(handle);
            if bad.is_none() {
                if let Err((k, d)) = check_stream(&content, 7, &[2, 4, 4], b"\n") {
                    bad = Some(format!("{k}: {d}"));
                }
            }
            match bad {
                None => {
                    println!("MIRIJOB ok kind=c04flush seed={seed} bytes={}", content.len());
                    0
                }
                Some(d) => {
                    println!("MIRIJOB VIOLATION kind=c04flush seed={seed} {d}");
                    1
                }
            }
        }
        // rotation with a background cleanup thread (C07): limits hold after shutdown, the
        // survivors are the newest records, nothing is torn
        "c07bg" => {
            let wm = if rng.chance(1, 2) { WMode::BufDont(64) } else { WMode::Direct };
            let mut c = cfg(&mut rng, dir, wm);
            c.clean = Clean::Logs(1);
            c.clean_bg = true;
            c.crit = Some(Crit::Size(30));
            c.l2 = false;
            let mut d = match Driver::build(&c) {
                Ok(d) => d,
                Err(e) => {
                    println!("MIRIJOB inconclusive build {e}");
                    return 2;
                }
            };
            let n = 10u64;
            for s in 0..n {
                d.write(log::Level::Info, &flw::msg_id(7, 0, s, 12));
            }
            d.shutdown();
            let obs = match family::observe(&c.names) {
                Ok(o) => o,
                Err(e) => {
                    println!("MIRIJOB inconclusive observe {e}");
                    return 2;
                }
            };
            let plain = obs
                .family
                .iter()
                .filter(|f| !f.entry.gz && f.entry.kind != family::Kind::Current)
                .count();
            let limit = if c.names.naming.is_direct() { 1 } else { 1 };
            let stream = obs.stream().unwrap_or_default();
            let ids: Vec<u64> = String::from_utf8_lossy(&stream)
                .lines()
                .filter_map(|l| flw::parse_msg_id(l).map(|(_, _, s)| s))
                .collect();
            let lines = String::from_utf8_lossy(&stream).lines().count();
            let tail_ok = !ids.is_empty()
                && ids.len() == lines
                && ids.last() == Some(&(n - 1))
                && ids.windows(2).all(|w| w[1] == w[0] + 1);
            if plain > limit + usize::from(c.names.naming.is_direct()) {
                println!("MIRIJOB VIOLATION kind=c07bg seed={seed} {plain} plain files after shutdown (limit {limit}): {:?}", obs.names());
                1
            } else if !tail_ok {
                println!("MIRIJOB VIOLATION kind=c07bg seed={seed} survivors are not an intact tail of the stream: ids {ids:?}, {lines} lines, files {:?}", obs.names());
                1
            } else {
                println!("MIRIJOB ok kind=c07bg seed={seed} files={} ids={}", obs.family.len(), ids.len());
                0
            }
        }
        _ => {
            println!("MIRIJOB inconclusive unknown kind");
            2
        }
    }
}
