//! C03 — concurrent logging keeps every line intact, exactly once, in per-thread order.
//! Oracle: offline checker over the output (files read oldest → newest, or captured
//! stdout/stderr of a child): every line parses to `<run>.<thread>.<seq>|<len>|<payload>`,
//! multiset equality with the ids whose log call returned, per-thread monotone sequence numbers;
//! a thread-order fingerprint measures the interleavings actually seen.

use crate::child::{self, ChildArgs};
use crate::ctl;
use crate::family;
use crate::flw::{self, Clean, Crit, Driver, FlwCfg, FmtK, WMode};
use crate::rng::Rng;
use crate::util::{CaseCtx, CaseResult, Verdict};
use flexi_logger::{LogSpecification, Logger, WriteMode};
use serde_json::json;
use std::sync::Arc;

pub struct StreamReport {
    pub lines: u64,
    pub fingerprint: u64,
    pub switches: u64,
}

/// the offline checker: `expected[t]` = number of records thread t logged (seq 0..n)
pub fn check_stream(
    content: &[u8],
    run: u64,
    expected: &[u64],
    line_ending: &[u8],
) -> Result<StreamReport, (String, String)> {
    let mut next: Vec<u64> = vec![0; expected.len()];
    let mut fp: u64 = 0xcbf2_9ce4_8422_2325;
    let mut lines = 0u64;
    let mut switches = 0u64;
    let mut last_t: Option<u64> = None;
    let mut rest = content;
    while !rest.is_empty() {
        let pos = rest
            .windows(line_ending.len())
            .position(|w| w == line_ending);
        let Some(p) = pos else {
            return Err((
                "torn-line".into(),
                format!(
                    "output ends without line ending: {:?}",
                    String::from_utf8_lossy(&rest[..rest.len().min(80)])
                ),
            ));
        };
        let line = &rest[..p];
        rest = &rest[p + line_ending.len()..];
        lines += 1;
        let text = String::from_utf8_lossy(line);
        let Some((r, t, s)) = flw::parse_msg_id(&text) else {
            return Err((
                "torn-line".into(),
                format!(
                    "line {lines} is not an intact record: {:?}",
                    text.chars().take(120).collect::<String>()
                ),
            ));
        };
        if r != run || t as usize >= expected.len() {
            return Err((
                "foreign-line".into(),
                format!("line {lines} carries id {r}.{t}.{s} which was never logged"),
            ));
        }
        let want = next[t as usize];
        if s != want {
            let kind = if s < want { "duplicate-or-reordered" } else { "lost-or-reordered" };
            return Err((
                kind.into(),
                format!(
                    "thread {t}: expected sequence number {want} next, found {s} (line {lines})"
                ),
            ));
        }
        next[t as usize] += 1;
        if last_t != Some(t) {
            switches += 1;
        }
        last_t = Some(t);
        if lines <= 4096 {
            fp = (fp ^ t).wrapping_mul(0x0000_0100_0000_01B3);
        }
    }
    for (t, (n, e)) in next.iter().zip(expected.iter()).enumerate() {
        if n != e {
            return Err((
                "lost".into(),
                format!("thread {t}: {e} records were logged, {n} are in the output"),
            ));
        }
    }
    Ok(StreamReport {
        lines,
        fingerprint: fp,
        switches,
    })
}

/// Removes complete lines that are exactly the fragment of a refused record (each at most once);
/// whatever else a refused record may have caused stays in and is judged by `check_stream`.
fn drop_refused_fragments(content: &[u8], run: u64, le: &[u8]) -> (Vec<u8>, u64) {
    let mut out = Vec::with_capacity(content.len());
    let mut seen = std::collections::HashSet::new();
    let mut rest = content;
    let mut n = 0u64;
    while !rest.is_empty() {
        let end = rest
            .windows(le.len())
            .position(|w| w == le)
            .map_or(rest.len(), |p| p + le.len());
        let (line, tail) = rest.split_at(end);
        rest = tail;
        let body = line.strip_suffix(le).unwrap_or(line);
        let is_fragment = std::str::from_utf8(body)
            .ok()
            .and_then(|t| t.strip_prefix("FAILPART<"))
            .and_then(|t| t.strip_suffix('>'))
            .is_some_and(|id| {
                let parts: Vec<&str> = id.split('.').collect();
                parts.len() == 3
                    && parts[0] == run.to_string()
                    && parts.iter().all(|p| !p.is_empty() && p.bytes().all(|b| b.is_ascii_digit()))
                    && seen.insert(id.to_string())
            });
        if is_fragment && line.ends_with(le) {
            n += 1;
        } else {
            out.extend_from_slice(line);
        }
    }
    (out, n)
}

fn gen_wmode(rng: &mut Rng, allow_flusher: bool) -> WMode {
    match rng.below(10) {
        0..=2 => WMode::Direct,
        3..=4 => WMode::BufDont(*rng.pick(&[1usize, 40, 300, 8192])),
        5 if allow_flusher => WMode::BufFlush(*rng.pick(&[40usize, 8192]), 1),
        5 => WMode::BufDont(40),
        6..=8 => WMode::Async {
            pool: *rng.pick(&[1usize, 2, 8]),
            msg: *rng.pick(&[8usize, 64]),
            flush_ms: if allow_flusher && rng.chance(1, 3) { 1 } else { 0 },
        },
        _ => WMode::SupportCapture,
    }
}

// ------------------------------------------------------------------------------------------
// a duplicate to stderr whose format function refuses some records half-way: the file output of
// the same thread must not be affected (the renderings share a thread-local buffer)

fn duplicate_with_refusing_format_case(ctx: &mut CaseCtx) -> CaseResult {
    use flexi_logger::{Duplicate, FileSpec, LogSpecification, Logger};
    let rng = &mut ctx.rng;
    let wmode = *rng.pick(&[WMode::Direct, WMode::BufDont(64), WMode::BufDont(8192)]);
    let crlf = rng.chance(1, 4);
    let mut res = CaseResult::new(format!("file+stderr-duplicate-with-refusing-format|{}", wmode.label()));
    let dir = ctx.dir.join("dup");
    let mut lg = Logger::with(LogSpecification::trace())
        .log_to_file(FileSpec::default().directory(&dir).basename("dup").suppress_timestamp().suffix("log"))
        .format_for_files(flw::fmt_raw)
        .format_for_stderr(flw::fmt_raw_fallible)
        .duplicate_to_stderr(Duplicate::Error)
        .write_mode(wmode.to_write_mode())
        .error_channel(flw::error_channel());
    if crlf {
        lg = lg.use_windows_line_ending();
    }
    let (boxed, handle) = match lg.build() {
        Ok(x) => x,
        Err(e) => {
            res.violate("build-failed", "C03/build-failed/dup", format!("{e:?}"));
            return res;
        }
    };
    let run = ctx.case;
    let n = rng.range(20, 120) as u64;
    let mut refused = 0u64;
    for s in 0..n {
        if rng.chance(1, 4) {
            // only these (level Error) are duplicated; the duplicate's format refuses them
            let m = format!("FAIL:{run}.0.{s}");
            flw::with_record(log::Level::Error, "flmon::c03", &m, |r| boxed.log(r));
            refused += 1;
        }
        let m = flw::msg_id(run, 0, s, rng.usize(40));
        flw::with_record(log::Level::Info, "flmon::c03", &m, |r| boxed.log(r));
    }
    handle.shutdown();
    let _ = flw::take_error_channel();
    drop(handle);
    drop(boxed);
    res.absorb_panics("C03", "duplicate with a refusing format");
    let le: &[u8] = if crlf { b"\r\n" } else { b"\n" };
    let content = std::fs::read(dir.join("dup.log")).unwrap_or_default();
    // in the file the refused records are ordinary lines (the file format does not refuse them)
    let mut rest = Vec::with_capacity(content.len());
    let mut seen_fail = 0u64;
    let mut cur = content.as_slice();
    while !cur.is_empty() {
        let end = cur.windows(le.len()).position(|w| w == le).map_or(cur.len(), |p| p + le.len());
        let (line, tail) = cur.split_at(end);
        cur = tail;
        let body = line.strip_suffix(le).unwrap_or(line);
        let is_fail_line = std::str::from_utf8(body).ok().and_then(|t| t.strip_prefix("FAIL:")).is_some_and(|id| {
            let p: Vec<&str> = id.split('.').collect();
            p.len() == 3 && p[0] == run.to_string() && p.iter().all(|x| !x.is_empty() && x.bytes().all(|b| b.is_ascii_digit()))
        });
        if is_fail_line && line.ends_with(le) {
            seen_fail += 1;
        } else {
            rest.extend_from_slice(line);
        }
    }
    res.count("records_refused_by_the_duplicate_format", refused);
    if seen_fail != refused && res.verdict == Verdict::Held {
        res.violate(
            "torn-line",
            format!("C03/torn-line/file+stderr-duplicate/{}", wmode.label()),
            format!("{refused} records were refused by the format of the stderr duplicate only; the file has {seen_fail} intact lines for them"),
        );
    }
    if res.verdict == Verdict::Held {
        match check_stream(&rest, run, &[n], le) {
            Ok(rep) => res.count("lines_checked", rep.lines),
            Err((kind, detail)) => res.violate(
                &kind,
                format!("C03/{kind}/file+stderr-duplicate/{}", wmode.label()),
                format!("the format of the stderr duplicate refuses some records; the file output: {detail}"),
            ),
        }
    }
    res.nontrivial = refused > 0;
    res
}

pub fn run_case(ctx: &mut CaseCtx) -> CaseResult {
    if ctx.case % 8 == 7 {
        return std_case(ctx);
    }
    if ctx.case % 16 == 5 {
        return duplicate_with_refusing_format_case(ctx);
    }
    let rng = &mut ctx.rng;
    let naming = flw::gen_naming(rng, false);
    let (names, _) = flw::gen_name_parts(rng, &ctx.dir, naming, false);
    let wmode = gen_wmode(rng, ctx.case % 4 == 1);
    let nthreads = rng.range(2, 8) as usize;
    let per_thread = if ctx.thorough {
        rng.range(50, 2000)
    } else {
        rng.range(50, 400)
    } as u64;
    // payload sizes around buffer and pool/message capacities
    let sizes: Vec<usize> = match wmode {
        WMode::BufDont(c) | WMode::BufFlush(c, _) => vec![0, 1, c.saturating_sub(12), c, c + 1, 30],
        WMode::Async { msg, .. } => vec![0, 1, msg.saturating_sub(12), msg, msg + 1, 3 * msg],
        _ => vec![0, 1, 10, 60, 200],
    }
    .into_iter()
    .map(|s| s.min(2000))
    .collect();
    let clean = match rng.below(4) {
        0 => Clean::Logs(100_000),
        1 => Clean::Both(50_000, 50_000),
        _ => Clean::Never,
    };
    let cfg = FlwCfg {
        names,
        use_ts: false,
        // small enough for hundreds of rotations
        crit: Some(Crit::Size(*rng.pick(&[200u64, 1000, 5000]))),
        clean,
        clean_bg: rng.chance(1, 2),
        wmode,
        crlf: rng.chance(1, 4),
        append: false,
        symlink: None,
        use_utc: false,
        max_level: log::LevelFilter::Trace,
        fmt: if ctx.case % 4 == 2 { FmtK::RawFallible } else { FmtK::Raw },
        l2: rng.chance(1, 3),
    };
    // now and then the format function refuses a record after having written a fragment; the
    // refused records carry no sequence number, the records around them must stay intact
    let refusing = cfg.fmt == FmtK::RawFallible;
    let noise = rng.chance(2, 3);
    let noise_seed = rng.next();
    let mut res = CaseResult::new(format!(
        "file|{}|{}|{}|t{}|{}|{}",
        if cfg.l2 { "L2" } else { "L1" },
        cfg.names.naming.label(),
        cfg.wmode.label(),
        nthreads,
        cfg.clean.label(),
        if noise { "noise" } else { "-" },
    ));
    ctl::install(false);
    ctl::clock_unset();
    if noise {
        ctl::with_ctl(|c| {
            c.noise_state = noise_seed | 1;
            c.noise_max_us = 300;
            c.noise_points = ["sync_formatted", "async_send", "async_recv", "flusher_tick"]
                .iter()
                .map(|s| (*s).to_string())
                .collect();
        });
    }
    let shared: Arc<Driver> = match Driver::build(&cfg) {
        Ok(d) => Arc::new(d),
        Err(e) => {
            res.violate("build-failed", "C03/build-failed", e);
            ctl::uninstall();
            return res;
        }
    };
    let run = ctx.case;
    let mut joins = Vec::new();
    for t in 0..nthreads {
        let d = Arc::clone(&shared);
        let sizes = sizes.clone();
        let mut trng = rng.fork();
        joins.push(
            std::thread::Builder::new()
                .name(format!("c03-w{t}"))
                .spawn(move || {
                    for s in 0..per_thread {
                        let len = *trng.pick(&sizes);
                        if refusing && trng.chance(1, 8) {
                            d.write(log::Level::Info, &format!("FAIL:{run}.{t}.{s}"));
                        }
                        d.write(log::Level::Info, &flw::msg_id(run, t as u64, s, len));
                    }
                })
                .expect("spawn"),
        );
    }
    let mut ok_join = true;
    for j in joins {
        if j.join().is_err() {
            ok_join = false;
        }
    }
    // all log calls have returned; shut down and read
    match Arc::try_unwrap(shared) {
        Ok(mut d) => d.shutdown(),
        Err(_) => res.inconclusive("writer still shared after join"),
    }
    ctl::uninstall();
    res.absorb_panics("C03", "concurrent logging");
    if !ok_join && res.verdict == Verdict::Held {
        res.inconclusive("a logging thread panicked outside repository code");
    }
    let facts = format!(
        "file/{}/naming={}",
        cfg.wmode.label(),
        cfg.names.naming.label()
    );
    match family::observe(&cfg.names) {
        Err(e) => res.inconclusive(format!("cannot read directory: {e}")),
        Ok(obs) => {
            res.count("files_read", obs.family.len() as u64);
            res.count("rotations", obs.family.len().saturating_sub(1) as u64);
            if !obs.foreign.is_empty() {
                res.violate(
                    "foreign-file-created",
                    format!("C03/foreign-file-created/{facts}"),
                    format!("{:?}", obs.foreign),
                );
            } else {
                match obs.stream() {
                    Err(e) => res.violate("unreadable", format!("C03/unreadable/{facts}"), e),
                    Ok(stream) => {
                        let expected = vec![per_thread; nthreads];
                        let stream = if refusing {
                            let (rest, fragments) = drop_refused_fragments(&stream, run, cfg.line_ending());
                            res.count("refused_record_fragments_seen", fragments);
                            rest
                        } else {
                            stream
                        };
                        match check_stream(&stream, run, &expected, cfg.line_ending()) {
                            Ok(rep) => {
                                res.count("lines_checked", rep.lines);
                                res.count("thread_switches", rep.switches);
                                res.add_to_set("thread_order_fingerprints", format!("{:016x}", rep.fingerprint));
                            }
                            Err((kind, detail)) => res.violate(
                                &kind,
                                format!("C03/{kind}/{facts}"),
                                format!("{detail}; files: {}", obs.family.len()),
                            ),
                        }
                    }
                }
            }
        }
    }
    res.nontrivial = true;
    if ctx.case < 2 || res.verdict != Verdict::Held {
        res.sample = Some(json!({
            "config": cfg.to_json(), "threads": nthreads, "records_per_thread": per_thread,
            "payload_sizes": sizes, "noise": noise,
        }));
    }
    res
}

// ------------------------------------------------------------------------------------------
// stdout / stderr in a child process

#[derive(Debug, Clone)]
struct StdScenario {
    stdout: bool,
    mode: u8,
    nthreads: usize,
    per_thread: u64,
    noise: bool,
}
fn gen_std(rng: &mut Rng, thorough: bool) -> StdScenario {
    StdScenario {
        stdout: rng.chance(1, 2),
        mode: rng.below(5) as u8,
        nthreads: rng.range(2, 8) as usize,
        per_thread: rng.range(50, if thorough { 1500 } else { 300 }) as u64,
        noise: rng.chance(1, 2),
    }
}
fn std_mode(i: u8) -> (WriteMode, &'static str) {
    match i % 5 {
        0 => (WriteMode::Direct, "Unbuffered"),
        1 => (WriteMode::BufferDontFlushWith(64), "Buffered"),
        2 => (WriteMode::BufferDontFlush, "Buffered"),
        3 => (
            WriteMode::AsyncWith {
                pool_capa: 2,
                message_capa: 16,
                flush_interval: std::time::Duration::from_secs(0),
            },
            "Async",
        ),
        _ => (WriteMode::SupportCapture, "SupportCapture"),
    }
}

pub fn child_main(a: &ChildArgs) -> i32 {
    let mut ctx = child::ctx_of(a);
    let sc = gen_std(&mut ctx.rng, ctx.thorough);
    let lg = Logger::with(LogSpecification::trace())
        .format(flw::fmt_raw)
        .write_mode(std_mode(sc.mode).0)
        .error_channel(flexi_logger::ErrorChannel::File(a.dir.join("errchan.txt")));
    let lg = if sc.stdout {
        lg.log_to_stdout()
    } else {
        lg.log_to_stderr()
    };
    if sc.noise {
        ctl::install(false);
        let st = ctx.rng.next() | 1;
        ctl::with_ctl(|c| {
            c.noise_state = st;
            c.noise_max_us = 200;
            c.noise_points = vec!["async_std_recv".into()];
        });
    }
    let handle = match lg.start() {
        Ok(h) => h,
        Err(e) => {
            // stderr may be the log output: report through the exit code only
            let _ = e;
            return 3;
        }
    };
    let run = a.case;
    let mut joins = Vec::new();
    for t in 0..sc.nthreads {
        let n = sc.per_thread;
        let mut trng = ctx.rng.fork();
        joins.push(std::thread::spawn(move || {
            for s in 0..n {
                let len = *trng.pick(&[0usize, 1, 15, 16, 17, 63, 64, 65, 200]);
                // the real macro
                log::info!(target: "flmon::c03", "{}", flw::msg_id(run, t as u64, s, len));
            }
        }));
    }
    for j in joins {
        let _ = j.join();
    }
    handle.shutdown();
    0
}

fn std_case(ctx: &mut CaseCtx) -> CaseResult {
    let sc = gen_std(&mut ctx.rng, ctx.thorough);
    let (_, mlabel) = std_mode(sc.mode);
    let stream_name = if sc.stdout { "stdout" } else { "stderr" };
    let mut res = CaseResult::new(format!(
        "{stream_name}|{mlabel}|t{}|{}",
        sc.nthreads,
        if sc.noise { "noise" } else { "-" }
    ));
    let (out, hang) = match child::spawn_confirm_hang(&child::Spawn {
        ctx,
        role: "std",
        extra: vec![],
        env: vec![],
        timeout: std::time::Duration::from_secs(30),
        tag: "std",
        cwd: None,
        kill_after: None,
    }) {
        Ok(o) => o,
        Err(e) => {
            res.inconclusive(format!("cannot spawn child: {e}"));
            return res;
        }
    };
    let facts = format!("{stream_name}/{mlabel}");
    if out.timed_out {
        if hang {
            res.violate(
                "hang",
                format!("C03/hang/{facts}"),
                "the child did not finish within 30 s, twice in a row",
            );
        } else {
            res.inconclusive("child exceeded the watchdog once");
        }
        return res;
    }
    if !out.clean_exit() {
        res.violate(
            "child-died",
            format!("C03/child-died/{facts}"),
            out.describe(),
        );
        return res;
    }
    let captured = if sc.stdout { &out.stdout } else { &out.stderr };
    let expected = vec![sc.per_thread; sc.nthreads];
    match check_stream(captured, ctx.case, &expected, b"\n") {
        Ok(rep) => {
            res.count("lines_checked", rep.lines);
            res.count("thread_switches", rep.switches);
            res.add_to_set("thread_order_fingerprints", format!("{:016x}", rep.fingerprint));
        }
        Err((kind, detail)) => res.violate(&kind, format!("C03/{kind}/{facts}"), detail),
    }
    // nothing may leak to the other stream
    let other = if sc.stdout { &out.stderr } else { &out.stdout };
    if !other.is_empty() && res.verdict == Verdict::Held {
        res.violate(
            "output-on-other-stream",
            format!("C03/output-on-other-stream/{facts}"),
            format!(
                "{} bytes on the other stream: {:?}",
                other.len(),
                String::from_utf8_lossy(&other[..other.len().min(200)])
            ),
        );
    }
    res.count("child_runs", 1);
    res.nontrivial = true;
    if ctx.case < 16 || res.verdict != Verdict::Held {
        res.sample = Some(json!({"scenario": format!("{sc:?}")}));
    }
    res
}
