//! File-log-writer scenarios: configuration space, builders (L1 = FileLogWriter directly,
//! L2 = Logger::build()), operation driver, and the reference model of the file family
//! (DESIGN §4, Appendix B/C).

use crate::ctl;
use crate::family::{self, DirObs, Kind, NameCfg, NamingK};
use crate::rng::Rng;
use chrono::{Datelike, Timelike};
use flexi_logger::writers::{FileLogWriter, FileLogWriterBuilder, LogWriter};
use flexi_logger::{
    Age, Cleanup, Criterion, DeferredNow, FileSpec, LogSpecification, Logger, LoggerHandle, Naming,
    WriteMode,
};
use serde_json::{json, Value};
use std::path::{Path, PathBuf};
use std::time::Duration;

// ------------------------------------------------------------------------------------------
// configuration

#[derive(Clone, Copy, Debug, PartialEq, Eq)]
pub enum AgeK {
    Day,
    Hour,
    Minute,
    Second,
}
impl AgeK {
    pub fn to_age(self) -> Age {
        match self {
            AgeK::Day => Age::Day,
            AgeK::Hour => Age::Hour,
            AgeK::Minute => Age::Minute,
            AgeK::Second => Age::Second,
        }
    }
    /// period key of a local instant
    pub fn period(self, ns: i64) -> (i32, u32, u32, u32, u32, u32) {
        let t = ctl::local_from_ns(ns);
        match self {
            AgeK::Day => (t.year(), t.month(), t.day(), 0, 0, 0),
            AgeK::Hour => (t.year(), t.month(), t.day(), t.hour(), 0, 0),
            AgeK::Minute => (t.year(), t.month(), t.day(), t.hour(), t.minute(), 0),
            AgeK::Second => (t.year(), t.month(), t.day(), t.hour(), t.minute(), t.second()),
        }
    }
    pub fn label(self) -> &'static str {
        match self {
            AgeK::Day => "Day",
            AgeK::Hour => "Hour",
            AgeK::Minute => "Minute",
            AgeK::Second => "Second",
        }
    }
}

#[derive(Clone, Copy, Debug, PartialEq, Eq)]
pub enum Crit {
    Size(u64),
    Age(AgeK),
    AgeOrSize(AgeK, u64),
}
impl Crit {
    pub fn label(&self) -> String {
        match self {
            Crit::Size(_) => "Size".into(),
            Crit::Age(a) => format!("Age{}", a.label()),
            Crit::AgeOrSize(a, _) => format!("AgeOrSize{}", a.label()),
        }
    }
}

#[derive(Clone, Copy, Debug, PartialEq, Eq)]
pub enum Clean {
    Never,
    Logs(usize),
    Gz(usize),
    Both(usize, usize),
}
impl Clean {
    pub fn limits(&self) -> Option<(usize, usize)> {
        match *self {
            Clean::Never => None,
            Clean::Logs(k) => Some((k, 0)),
            Clean::Gz(m) => Some((0, m)),
            Clean::Both(k, m) => Some((k, m)),
        }
    }
    pub fn label(&self) -> &'static str {
        match self {
            Clean::Never => "Never",
            Clean::Logs(_) => "KeepLogs",
            Clean::Gz(_) => "KeepGz",
            Clean::Both(_, _) => "KeepBoth",
        }
    }
}

#[derive(Clone, Copy, Debug, PartialEq, Eq)]
pub enum WMode {
    Direct,
    SupportCapture,
    BufDont(usize),
    BufFlush(usize, u64),
    Async { pool: usize, msg: usize, flush_ms: u64 },
}
impl WMode {
    pub fn to_write_mode(&self) -> WriteMode {
        // parameters that equal the documented defaults are said with the parameterless variants
        match *self {
            WMode::BufDont(8192) => return WriteMode::BufferDontFlush,
            WMode::BufFlush(8192, 1000) => return WriteMode::BufferAndFlush,
            WMode::Async { pool: 50, msg: 200, flush_ms: 1000 } => return WriteMode::Async,
            _ => {}
        }
        match *self {
            WMode::Direct => WriteMode::Direct,
            WMode::SupportCapture => WriteMode::SupportCapture,
            WMode::BufDont(c) => WriteMode::BufferDontFlushWith(c),
            WMode::BufFlush(c, ms) => WriteMode::BufferAndFlushWith(c, Duration::from_millis(ms)),
            WMode::Async { pool, msg, flush_ms } => WriteMode::AsyncWith {
                pool_capa: pool,
                message_capa: msg,
                flush_interval: Duration::from_millis(flush_ms),
            },
        }
    }
    pub fn is_async(&self) -> bool {
        matches!(self, WMode::Async { .. })
    }
    pub fn label(&self) -> &'static str {
        match self {
            WMode::Direct => "Direct",
            WMode::SupportCapture => "SupportCapture",
            WMode::BufDont(_) => "BufDont",
            WMode::BufFlush(_, _) => "BufFlush",
            WMode::Async { .. } => "Async",
        }
    }
}

#[derive(Clone, Copy, Debug, PartialEq, Eq)]
pub enum FmtK {
    /// prints only the message
    Raw,
    /// the crate's `default_format`
    Default,
    /// prints nothing at all
    Empty,
    /// like Raw, but refuses messages that start with "FAIL:" after having written a fragment
    RawFallible,
}

/// A format function may fail half-way. What becomes of the refused record is the crate's
/// business (the fragment as a line of its own, or nothing); the records around it must not be
/// affected.
pub fn fmt_raw_fallible(
    w: &mut dyn std::io::Write,
    _now: &mut DeferredNow,
    record: &log::Record,
) -> Result<(), std::io::Error> {
    let text = record.args().to_string();
    match text.strip_prefix("FAIL:") {
        Some(rest) => {
            write!(w, "FAILPART<{rest}>")?;
            Err(std::io::Error::new(std::io::ErrorKind::Other, "flmon: format function refuses this record"))
        }
        None => w.write_all(text.as_bytes()),
    }
}

pub fn fmt_raw(
    w: &mut dyn std::io::Write,
    _now: &mut DeferredNow,
    record: &log::Record,
) -> Result<(), std::io::Error> {
    write!(w, "{}", record.args())
}
pub fn fmt_empty(
    _w: &mut dyn std::io::Write,
    _now: &mut DeferredNow,
    _record: &log::Record,
) -> Result<(), std::io::Error> {
    Ok(())
}

pub const MODULE: &str = "flmon::wl";

impl FmtK {
    pub fn func(self) -> flexi_logger::FormatFunction {
        match self {
            FmtK::Raw => fmt_raw,
            FmtK::Default => flexi_logger::default_format,
            FmtK::Empty => fmt_empty,
            FmtK::RawFallible => fmt_raw_fallible,
        }
    }
    /// what the format prints for a record (independent of the crate)
    pub fn expected(self, level: log::Level, msg: &str) -> Vec<u8> {
        match self {
            FmtK::Raw | FmtK::RawFallible => msg.as_bytes().to_vec(),
            FmtK::Default => format!("{} [{}] {}", level.as_str(), MODULE, msg).into_bytes(),
            FmtK::Empty => Vec::new(),
        }
    }
}

pub const CUSTOM_FMTS: &[&str] = &[
    "%Y-%m-%d_%H-%M-%S",
    "r%Y%m%d-%H%M%S",
    "%Y%m%dT%H%M%S",
    "ts%Y-%m-%d_%H-%M-%S",
];
pub const CUSTOM_DATE_FMTS: &[&str] = &["%Y-%m-%d", "d%Y%m%d"];
pub const CURRENT_INFIXES: &[&str] = &["rCURRENT", "CUR", "now"];

#[derive(Clone, Debug)]
pub struct FlwCfg {
    pub names: NameCfg,
    pub use_ts: bool,
    pub crit: Option<Crit>,
    pub clean: Clean,
    pub clean_bg: bool,
    pub wmode: WMode,
    pub crlf: bool,
    pub append: bool,
    pub symlink: Option<PathBuf>,
    pub use_utc: bool,
    pub max_level: log::LevelFilter,
    pub fmt: FmtK,
    /// build through `Logger::build()` instead of the FileLogWriter builder
    pub l2: bool,
}

impl FlwCfg {
    pub fn line_ending(&self) -> &'static [u8] {
        if self.crlf {
            b"\r\n"
        } else {
            b"\n"
        }
    }
    pub fn fixed_contains_dot(&self) -> bool {
        self.names.fixed().contains('.')
    }
    pub fn name_mask(&self) -> String {
        format!(
            "{}{}{}{}",
            if self.names.basename.is_empty() { '-' } else { 'b' },
            if self.names.discr.is_some() { 'd' } else { '-' },
            if self.use_ts { 't' } else { '-' },
            if self.names.suffix.is_some() { 's' } else { '-' },
        )
    }
    pub fn to_json(&self) -> Value {
        json!({
            "dir": self.names.dir.to_string_lossy(),
            "basename": self.names.basename,
            "discr": self.names.discr,
            "use_ts": self.use_ts,
            "suffix": self.names.suffix,
            "naming": format!("{:?}", self.names.naming),
            "crit": self.crit.map(|c| format!("{c:?}")),
            "clean": format!("{:?}", self.clean),
            "clean_bg": self.clean_bg,
            "wmode": format!("{:?}", self.wmode),
            "crlf": self.crlf,
            "append": self.append,
            "symlink": self.symlink.as_ref().map(|p| p.to_string_lossy().to_string()),
            "use_utc": self.use_utc,
            "max_level": self.max_level.to_string(),
            "fmt": format!("{:?}", self.fmt),
            "l2": self.l2,
        })
    }

    /// the FileSpec as handed to the builders: under build variant bit 0 the start-time setting
    /// is left at its default wherever the documented default (start time iff no rotation) is
    /// what the configuration asks for anyway
    fn file_spec_for_build(&self) -> FileSpec {
        if build_variant() & 1 != 0 && self.use_ts == self.crit.is_none() {
            let mut fs = FileSpec::default()
                .directory(&self.names.dir)
                .basename(self.names.basename.clone())
                .o_discriminant(self.names.discr.clone())
                .o_suffix(self.names.suffix.clone());
            if self.names.basename.is_empty() {
                fs = fs.suppress_basename();
            }
            fs
        } else {
            self.file_spec()
        }
    }

    pub fn file_spec(&self) -> FileSpec {
        let mut fs = FileSpec::default()
            .directory(&self.names.dir)
            .basename(self.names.basename.clone())
            .o_discriminant(self.names.discr.clone())
            .o_suffix(self.names.suffix.clone())
            .use_timestamp(self.use_ts);
        if self.names.basename.is_empty() {
            fs = fs.suppress_basename();
        }
        fs
    }

    pub fn naming(&self) -> Option<Naming> {
        Some(match &self.names.naming {
            NamingK::NoRotation => return None,
            NamingK::Numbers => Naming::Numbers,
            NamingK::NumbersDirect => Naming::NumbersDirect,
            NamingK::Timestamps => Naming::Timestamps,
            NamingK::TimestampsDirect => Naming::TimestampsDirect,
            NamingK::Custom { fmt, current } => Naming::TimestampsCustomFormat {
                current_infix: current.as_ref().map(|c| leak(c)),
                format: leak(fmt),
            },
        })
    }
    pub fn criterion(&self) -> Option<Criterion> {
        self.crit.map(|c| match c {
            Crit::Size(n) => Criterion::Size(n),
            Crit::Age(a) => Criterion::Age(a.to_age()),
            Crit::AgeOrSize(a, n) => Criterion::AgeOrSize(a.to_age(), n),
        })
    }
    pub fn cleanup(&self) -> Cleanup {
        match self.clean {
            Clean::Never => Cleanup::Never,
            Clean::Logs(k) => Cleanup::KeepLogFiles(k),
            Clean::Gz(m) => Cleanup::KeepCompressedFiles(m),
            Clean::Both(k, m) => Cleanup::KeepLogAndCompressedFiles(k, m),
        }
    }

    pub fn flw_builder(&self) -> FileLogWriterBuilder {
        self.flw_builder_with_mode(self.wmode.to_write_mode())
    }

    /// `reset_flw` demands the write mode the embedded file writer has; `Logger::write_mode`
    /// hands the builder the mode without its flush interval (the parameterless variants stay
    /// parameterless: BufferAndFlush -> BufferDontFlush)
    pub fn write_mode_as_stored_by_logger(&self) -> WriteMode {
        match self.wmode.to_write_mode() {
            WriteMode::BufferAndFlush => WriteMode::BufferDontFlush,
            WriteMode::BufferAndFlushWith(cap, _) => WriteMode::BufferDontFlushWith(cap),
            WriteMode::Async => WriteMode::AsyncWith {
                pool_capa: 50,
                message_capa: 200,
                flush_interval: Duration::from_millis(0),
            },
            WriteMode::AsyncWith { pool_capa, message_capa, .. } => WriteMode::AsyncWith {
                pool_capa,
                message_capa,
                flush_interval: Duration::from_millis(0),
            },
            m => m,
        }
    }

    pub fn flw_builder_with_mode(&self, mode: WriteMode) -> FileLogWriterBuilder {
        let mut b = FileLogWriter::builder(self.file_spec_for_build())
            .format(self.fmt.func())
            .write_mode(mode)
            .max_level(self.max_level)
            .cleanup_in_background_thread(self.clean_bg)
            .o_append(self.append);
        if let (Some(n), Some(c)) = (self.naming(), self.criterion()) {
            b = if build_variant() & 4 != 0 {
                b.o_rotate(Some((c, n, self.cleanup())))
            } else {
                b.rotate(c, n, self.cleanup())
            };
        } else if build_variant() & 4 != 0 {
            b = b.o_rotate(None);
        }
        if self.crlf {
            b = b.use_windows_line_ending();
        }
        if let Some(l) = &self.symlink {
            b = b.create_symlink(l);
        }
        if self.use_utc {
            b = b.use_utc();
        }
        b
    }

    pub fn logger(&self) -> Logger {
        let mut l = Logger::with(LogSpecification::trace());
        // build variant bit 1: rotation is configured before the file specification is handed over
        let rotate_first = build_variant() & 2 != 0;
        if rotate_first {
            if let (Some(n), Some(c)) = (self.naming(), self.criterion()) {
                l = l.rotate(c, n, self.cleanup());
            }
        }
        l = l
            .log_to_file(self.file_spec_for_build())
            .format_for_files(self.fmt.func())
            .write_mode(self.wmode.to_write_mode())
            .cleanup_in_background_thread(self.clean_bg)
            .o_append(self.append)
            .error_channel(error_channel());
        if !rotate_first {
            if let (Some(n), Some(c)) = (self.naming(), self.criterion()) {
                l = l.rotate(c, n, self.cleanup());
            }
        }
        if self.crlf {
            l = l.use_windows_line_ending();
        }
        if let Some(s) = &self.symlink {
            l = l.create_symlink(s);
        }
        if self.use_utc {
            l = l.use_utc();
        }
        l
    }
}

thread_local! {
    static BUILD_VARIANT: std::cell::Cell<u8> = const { std::cell::Cell::new(0) };
}
/// Equivalent ways of saying the same configuration to the builders (bit 0: start-time setting
/// left at its documented default; bit 1: `rotate` before `log_to_file`; bit 2: `o_rotate`
/// instead of `rotate`). Per thread, i.e. per case.
pub fn set_build_variant(v: u8) {
    BUILD_VARIANT.with(|b| b.set(v));
}
pub fn build_variant() -> u8 {
    BUILD_VARIANT.with(std::cell::Cell::get)
}

fn leak(s: &str) -> &'static str {
    // interned so that a shard does not leak per case
    use std::collections::HashMap;
    use std::sync::Mutex;
    static INTERN: Mutex<Option<HashMap<String, &'static str>>> = Mutex::new(None);
    let mut g = INTERN.lock().unwrap();
    let m = g.get_or_insert_with(HashMap::new);
    if let Some(v) = m.get(s) {
        return v;
    }
    let v: &'static str = Box::leak(s.to_string().into_boxed_str());
    m.insert(s.to_string(), v);
    v
}

// ------------------------------------------------------------------------------------------
// error channel (process-wide): one file per shard process

pub fn error_channel_path() -> PathBuf {
    crate::util::work_root().join(format!("errchan_{}.txt", std::process::id()))
}
pub fn error_channel() -> flexi_logger::ErrorChannel {
    flexi_logger::ErrorChannel::File(error_channel_path())
}
/// Points the crate's process-global error channel at our file (needs one throw-away build()).
pub fn init_error_channel() {
    let _ = std::fs::remove_file(error_channel_path());
    let r = Logger::with(LogSpecification::off())
        .do_not_log()
        .error_channel(error_channel())
        .build();
    drop(r);
}
/// Returns and clears the error-channel lines written so far (palette noise removed).
pub fn take_error_channel() -> Vec<String> {
    let p = error_channel_path();
    let s = std::fs::read_to_string(&p).unwrap_or_default();
    let _ = std::fs::remove_file(&p);
    let mut out = Vec::new();
    for l in s.lines() {
        if l.contains("ERRCODE::Palette") || l.contains("error_info/index.html#palette") {
            continue;
        }
        if l.trim_start().starts_with("See https://docs.rs/flexi_logger") {
            continue;
        }
        out.push(l.to_string());
    }
    out
}

// ------------------------------------------------------------------------------------------
// driver

pub enum Driver {
    L1(Option<FileLogWriter>),
    L2 {
        logger: Option<Box<dyn log::Log>>,
        handle: Option<LoggerHandle>,
    },
}

pub fn with_record<R>(
    level: log::Level,
    target: &str,
    msg: &str,
    f: impl FnOnce(&log::Record) -> R,
) -> R {
    f(&log::Record::builder()
        .args(format_args!("{msg}"))
        .level(level)
        .target(target)
        .module_path(Some(MODULE))
        .file(Some("src/wl.rs"))
        .line(Some(42))
        .build())
}

impl Driver {
    pub fn build(cfg: &FlwCfg) -> Result<Driver, String> {
        if cfg.l2 {
            let (logger, handle) = cfg.logger().build().map_err(|e| format!("{e:?}"))?;
            Ok(Driver::L2 {
                logger: Some(logger),
                handle: Some(handle),
            })
        } else {
            Ok(Driver::L1(Some(
                cfg.flw_builder().try_build().map_err(|e| format!("{e:?}"))?,
            )))
        }
    }

    pub fn write(&self, level: log::Level, msg: &str) {
        with_record(level, MODULE, msg, |rec| match self {
            Driver::L1(Some(w)) => {
                let mut now = DeferredNow::new();
                let _ = w.write(&mut now, rec);
            }
            Driver::L2 {
                logger: Some(l), ..
            } => {
                // emulate the macro gate exactly
                if level <= log::max_level() {
                    l.log(rec);
                }
            }
            _ => {}
        });
    }

    /// Recursive logging: the outer record's message contains a value whose `Display`
    /// implementation logs the inner record through the same logger (the inner line comes first).
    pub fn write_nested(&self, level: log::Level, outer: &str, inner: &str) {
        struct Nest<'a> {
            d: &'a Driver,
            level: log::Level,
            inner: &'a str,
        }
        impl std::fmt::Display for Nest<'_> {
            fn fmt(&self, _f: &mut std::fmt::Formatter) -> std::fmt::Result {
                self.d.write(self.level, self.inner);
                Ok(())
            }
        }
        let nest = Nest { d: self, level, inner };
        let send = |rec: &log::Record| match self {
            Driver::L1(Some(w)) => {
                let mut now = DeferredNow::new();
                let _ = w.write(&mut now, rec);
            }
            Driver::L2 { logger: Some(l), .. } => {
                if level <= log::max_level() {
                    l.log(rec);
                }
            }
            _ => {}
        };
        send(&log::Record::builder()
            .args(format_args!("{nest}{outer}"))
            .level(level)
            .target(MODULE)
            .module_path(Some(MODULE))
            .file(Some("src/wl.rs"))
            .line(Some(42))
            .build());
    }

    /// like `write`; an L1 writer hands the error of the write to its caller
    pub fn write_result(&self, level: log::Level, msg: &str) -> Result<(), String> {
        match self {
            Driver::L1(Some(w)) => with_record(level, MODULE, msg, |rec| {
                let mut now = DeferredNow::new();
                w.write(&mut now, rec).map_err(|e| e.to_string())
            }),
            _ => {
                self.write(level, msg);
                Ok(())
            }
        }
    }

    pub fn rotate(&self) -> Result<(), String> {
        match self {
            Driver::L1(Some(w)) => w.rotate().map_err(|e| format!("{e:?}")),
            Driver::L2 {
                handle: Some(h), ..
            } => h.trigger_rotation().map_err(|e| format!("{e:?}")),
            _ => Ok(()),
        }
    }

    pub fn flush(&self) {
        match self {
            Driver::L1(Some(w)) => {
                let _ = w.flush();
            }
            Driver::L2 {
                handle: Some(h), ..
            } => h.flush(),
            _ => {}
        }
    }

    pub fn reopen(&self) -> Result<(), String> {
        match self {
            Driver::L1(Some(w)) => w.reopen_outputfile().map_err(|e| format!("{e:?}")),
            Driver::L2 {
                handle: Some(h), ..
            } => h.reopen_output().map_err(|e| format!("{e:?}")),
            _ => Ok(()),
        }
    }

    pub fn reset(&self, cfg: &FlwCfg) -> Result<(), String> {
        let b = if cfg.l2 {
            cfg.flw_builder_with_mode(cfg.write_mode_as_stored_by_logger())
        } else {
            cfg.flw_builder()
        };
        match self {
            Driver::L1(Some(w)) => w.reset(&b).map_err(|e| format!("{e:?}")),
            Driver::L2 {
                handle: Some(h), ..
            } => h.reset_flw(&b).map_err(|e| format!("{e:?}")),
            _ => Ok(()),
        }
    }

    pub fn existing_log_files(
        &self,
        sel: &flexi_logger::LogfileSelector,
    ) -> Result<Vec<PathBuf>, String> {
        match self {
            Driver::L1(Some(w)) => w.existing_log_files(sel).map_err(|e| format!("{e:?}")),
            Driver::L2 {
                handle: Some(h), ..
            } => h.existing_log_files(sel).map_err(|e| format!("{e:?}")),
            _ => Ok(vec![]),
        }
    }

    /// orderly end: L1 = drop of the FileLogWriter, L2 = shutdown() then drop
    pub fn shutdown(&mut self) {
        match self {
            Driver::L1(w) => {
                drop(w.take());
            }
            Driver::L2 { logger, handle } => {
                if let Some(h) = handle.as_ref() {
                    h.shutdown();
                }
                drop(handle.take());
                drop(logger.take());
            }
        }
    }
}

// ------------------------------------------------------------------------------------------
// reference model of the file family

#[derive(Clone, Debug)]
pub struct Seg {
    pub content: Vec<u8>,
    pub started_ns: i64,
    pub gz: bool,
}

#[derive(Clone, Debug)]
pub struct Model {
    pub naming: NamingK,
    pub crit: Option<Crit>,
    pub clean: Clean,
    /// rotated files, oldest → newest
    pub rotated: Vec<Seg>,
    /// the file currently written to (rCURRENT namings: the current file; direct: the newest)
    pub current: Option<Seg>,
    pub active: bool,
    cur_size: u64,
    created_at: i64,
    pub rotations: u64,
    pub rotations_by_criterion: u64,
    pub truncations: u64,
    pub removed_by_cleanup: u64,
    pub compressed_by_cleanup: u64,
    /// keep everything ever written (the observation is then judged as a tail of it)
    pub no_trim: bool,
}

impl Model {
    pub fn new(cfg: &FlwCfg) -> Self {
        Model {
            naming: cfg.names.naming.clone(),
            crit: cfg.crit,
            clean: cfg.clean,
            rotated: Vec::new(),
            current: None,
            active: false,
            cur_size: 0,
            created_at: 0,
            rotations: 0,
            rotations_by_criterion: 0,
            truncations: 0,
            removed_by_cleanup: 0,
            compressed_by_cleanup: 0,
            no_trim: false,
        }
    }

    /// a new logger instance is started on the same family (files are touched lazily)
    pub fn restart(&mut self, cfg: &FlwCfg) {
        self.active = false;
        self.naming = cfg.names.naming.clone();
        self.crit = cfg.crit;
        self.clean = cfg.clean;
    }

    fn init(&mut self, append: bool, now: i64) {
        self.active = true;
        if self.crit.is_none() {
            // no rotation
            match (&mut self.current, append) {
                (Some(_), true) => {}
                (Some(c), false) => {
                    // the documented truncation of a non-rotated file re-opened without append
                    c.content.clear();
                    self.truncations += 1;
                }
                (None, _) => {
                    self.current = Some(Seg {
                        content: Vec::new(),
                        started_ns: now,
                        gz: false,
                    });
                }
            }
            return;
        }
        match (self.current.is_some(), append) {
            (true, true) => {
                let c = self.current.as_ref().unwrap();
                self.cur_size = c.content.len() as u64;
                self.created_at = c.started_ns;
            }
            (true, false) => {
                let c = self.current.take().unwrap();
                self.rotated.push(c);
                self.new_current(now);
            }
            (false, _) => self.new_current(now),
        }
        // initial cleanup always runs synchronously
        self.trim();
    }

    fn new_current(&mut self, now: i64) {
        self.current = Some(Seg {
            content: Vec::new(),
            started_ns: now,
            gz: false,
        });
        self.cur_size = 0;
        self.created_at = now;
    }

    fn rotation_necessary(&self, now: i64) -> bool {
        let size = |max: u64| self.cur_size > max;
        let age = |a: AgeK| a.period(self.created_at) != a.period(now);
        match self.crit {
            None => false,
            Some(Crit::Size(n)) => size(n),
            Some(Crit::Age(a)) => age(a),
            Some(Crit::AgeOrSize(a, n)) => size(n) || age(a),
        }
    }

    fn do_rotate(&mut self, now: i64) {
        if let Some(c) = self.current.take() {
            self.rotated.push(c);
        }
        self.new_current(now);
        self.rotations += 1;
        self.trim();
    }

    pub fn write(&mut self, bytes: &[u8], append: bool, now: i64) {
        if !self.active {
            self.init(append, now);
        }
        if self.rotation_necessary(now) {
            self.rotations_by_criterion += 1;
            self.do_rotate(now);
        }
        if let Some(c) = self.current.as_mut() {
            c.content.extend_from_slice(bytes);
        }
        self.cur_size += bytes.len() as u64;
    }

    /// explicit rotation; a no-op before the first write of a run (files are opened lazily)
    pub fn trigger(&mut self, now: i64) {
        if self.active && self.crit.is_some() {
            self.do_rotate(now);
        }
    }

    /// cleanup by the documented limits (Appendix C)
    pub fn trim(&mut self) {
        if self.no_trim {
            return;
        }
        let Some((k, m)) = self.clean.limits() else {
            return;
        };
        // for direct namings the current file is part of the counted listing
        let delta = usize::from(self.naming.is_direct());
        let k_rot = if self.naming.is_direct() {
            k.max(1) - delta
        } else {
            k
        };
        let n = self.rotated.len();
        let keep_total = (k_rot + m).min(n);
        let remove = n - keep_total;
        if remove > 0 {
            self.rotated.drain(0..remove);
            self.removed_by_cleanup += remove as u64;
        }
        let n = self.rotated.len();
        let plain = k_rot.min(n);
        for s in &mut self.rotated[..n - plain] {
            if !s.gz {
                s.gz = true;
                self.compressed_by_cleanup += 1;
            }
        }
    }

    /// expected ordered list of file contents (oldest → newest, current last)
    pub fn contents(&self) -> Vec<&Seg> {
        self.rotated.iter().chain(self.current.iter()).collect()
    }
    pub fn stream(&self) -> Vec<u8> {
        let mut v = Vec::new();
        for s in self.contents() {
            v.extend_from_slice(&s.content);
        }
        v
    }
}

// ------------------------------------------------------------------------------------------
// comparison helpers

/// first index at which two byte strings differ, with a printable window around it
pub fn diff_bytes(exp: &[u8], got: &[u8]) -> Option<String> {
    if exp == got {
        return None;
    }
    let n = exp.len().min(got.len());
    let mut i = 0;
    while i < n && exp[i] == got[i] {
        i += 1;
    }
    let win = |b: &[u8]| {
        let s = i.saturating_sub(24);
        let e = (i + 40).min(b.len());
        String::from_utf8_lossy(&b[s..e]).replace('\n', "\\n").replace('\r', "\\r")
    };
    Some(format!(
        "first difference at byte {i} (expected len {}, got len {}): expected …{}… got …{}…",
        exp.len(),
        got.len(),
        win(exp),
        win(got)
    ))
}

/// Compares the observed family (ordered) with the model's segments: count, content per file,
/// compression flag, and for timestamp namings the timestamp part of the infix.
pub fn compare_partition(
    cfg: &FlwCfg,
    model: &Model,
    obs: &DirObs,
    check_gz_flag: bool,
    check_ts: bool,
) -> Result<(), (String, String)> {
    let exp = model.contents();
    if obs.has_twins() {
        return Err((
            "twin".into(),
            format!("plain file and .gz twin coexist: {:?}", obs.names()),
        ));
    }
    if exp.len() != obs.family.len() {
        return Err((
            "file-count".into(),
            format!(
                "expected {} files (sizes {:?}), found {} files {:?} (sizes {:?})",
                exp.len(),
                exp.iter().map(|s| s.content.len()).collect::<Vec<_>>(),
                obs.family.len(),
                obs.names(),
                obs.family
                    .iter()
                    .map(|f| f.content.as_ref().map(Vec::len).unwrap_or(0))
                    .collect::<Vec<_>>()
            ),
        ));
    }
    for (i, (e, o)) in exp.iter().zip(obs.family.iter()).enumerate() {
        let content = match &o.content {
            Ok(c) => c,
            Err(err) => {
                return Err((
                    "gz-undecodable".into(),
                    format!("{}: {err}", o.entry.name),
                ))
            }
        };
        if let Some(d) = diff_bytes(&e.content, content) {
            return Err((
                "file-content".into(),
                format!("file #{i} {}: {d}; all files {:?}", o.entry.name, obs.names()),
            ));
        }
        if check_gz_flag && e.gz != o.entry.gz {
            return Err((
                "gz-flag".into(),
                format!(
                    "file #{i} {}: expected compressed={}, found compressed={}; all {:?}",
                    o.entry.name,
                    e.gz,
                    o.entry.gz,
                    obs.names()
                ),
            ));
        }
        if check_ts {
            if let (Kind::Ts(_, _), Some(fmt)) = (&o.entry.kind, cfg.names.naming.ts_fmt()) {
                let t = ctl::local_from_ns(e.started_ns);
                let want = if cfg.use_utc {
                    t.naive_utc().format(fmt).to_string()
                } else {
                    t.format(fmt).to_string()
                };
                let got = o.entry.infix.split(".restart-").next().unwrap_or("");
                if want != got {
                    return Err((
                        "ts-infix".into(),
                        format!(
                            "file #{i} {}: content was started at {want} but the infix says {got}",
                            o.entry.name
                        ),
                    ));
                }
            }
        }
    }
    // for rCURRENT namings the last file must be the current one when the model has a current
    Ok(())
}

// ------------------------------------------------------------------------------------------
// generators

pub fn gen_naming(rng: &mut Rng, allow_custom: bool) -> NamingK {
    let n = if allow_custom { 7 } else { 4 };
    match rng.below(n) {
        0 => NamingK::Numbers,
        1 => NamingK::NumbersDirect,
        2 => NamingK::Timestamps,
        3 => NamingK::TimestampsDirect,
        4 => NamingK::Custom {
            fmt: (*rng.pick(CUSTOM_FMTS)).to_string(),
            current: Some((*rng.pick(CURRENT_INFIXES)).to_string()),
        },
        5 => NamingK::Custom {
            fmt: (*rng.pick(CUSTOM_FMTS)).to_string(),
            current: None,
        },
        _ => NamingK::Custom {
            fmt: (*rng.pick(CUSTOM_DATE_FMTS)).to_string(),
            current: Some((*rng.pick(CURRENT_INFIXES)).to_string()),
        },
    }
}

pub fn gen_name_parts(rng: &mut Rng, dir: &Path, naming: NamingK, allow_ts: bool) -> (NameCfg, bool) {
    // incl. parts that contain fragments of the infix language ("_r", "_r0…", "rCURRENT")
    let basename = match rng.below(8) {
        0 => String::new(),
        1 => "x".to_string(),
        2 => "my_prog".to_string(),
        3 => "app-1.2".to_string(),
        4 => "web_router".to_string(),
        5 => "a_r00".to_string(),
        _ => "flmon".to_string(),
    };
    let discr = match rng.below(6) {
        0 => Some("D".to_string()),
        1 => Some("node_7".to_string()),
        2 => Some("my_r".to_string()),
        3 => Some("rCURRENT".to_string()),
        // an empty discriminant: by the documented composition it contributes its separator only
        // (and nothing at all when there is no basename either)
        4 if rng.chance(1, 2) => Some(String::new()),
        _ => None,
    };
    let suffix = match rng.below(6) {
        0 => None,
        1 => Some("txt".to_string()),
        2 => Some("trc".to_string()),
        _ => Some("log".to_string()),
    };
    let use_ts = allow_ts && rng.chance(1, 6);
    (
        NameCfg {
            dir: dir.to_path_buf(),
            basename,
            discr,
            start_ts: None,
            suffix,
            naming,
        },
        use_ts,
    )
}

pub const START_TS_FMT: &str = "%Y-%m-%d_%H-%M-%S";

/// message of exactly `len` bytes carrying the sequence number as far as it fits
pub fn msg_exact(seq: u64, len: usize) -> String {
    let mut s = format!("{seq}|");
    if s.len() > len {
        s.truncate(len);
        return s;
    }
    // (a full mixing step per character: long messages must not be highly repetitive, or
    // compression never has to emit more than one block)
    let mut h = crate::rng::mix(seq ^ 0x51ED);
    while s.len() < len {
        s.push((b'a' + (h % 26) as u8) as char);
        h = if len > 200 { crate::rng::mix(h) } else { h.rotate_left(5).wrapping_add(0x9E37) };
    }
    s
}

/// self-describing unique message: `<run>.<thread>.<seq>|<len>|<payload(len)>`
pub fn msg_id(run: u64, thread: u64, seq: u64, payload_len: usize) -> String {
    let mut s = format!("{run}.{thread}.{seq}|{payload_len}|");
    push_payload(&mut s, run, thread, seq, payload_len);
    s
}
fn push_payload(s: &mut String, run: u64, thread: u64, seq: u64, len: usize) {
    let mut h = crate::rng::mix(run.wrapping_mul(1_000_003) ^ thread.wrapping_mul(7919) ^ seq);
    for _ in 0..len {
        s.push((b'A' + (h % 26) as u8) as char);
        h = h.rotate_left(7).wrapping_add(0x9E37_79B9);
    }
}
/// parses a line produced by `msg_id`; returns (run, thread, seq) if intact
pub fn parse_msg_id(line: &str) -> Option<(u64, u64, u64)> {
    let mut it = line.splitn(3, '|');
    let id = it.next()?;
    let len: usize = it.next()?.parse().ok()?;
    let payload = it.next()?;
    let mut ids = id.split('.');
    let run: u64 = ids.next()?.parse().ok()?;
    let thread: u64 = ids.next()?.parse().ok()?;
    let seq: u64 = ids.next()?.parse().ok()?;
    if ids.next().is_some() || payload.len() != len {
        return None;
    }
    let mut want = String::new();
    push_payload(&mut want, run, thread, seq, len);
    if want == payload {
        Some((run, thread, seq))
    } else {
        None
    }
}

/// a virtual start instant: 2021-03-14 09:26:53.5 UTC plus a seeded offset
pub fn base_time_ns(rng: &mut Rng) -> i64 {
    let base: i64 = 1_615_714_013; // 2021-03-14T09:26:53Z
    let off = rng.range(0, 400 * 86_400);
    (base + off) * 1_000_000_000 + rng.range(0, 999_999) * 1_000
}

// ------------------------------------------------------------------------------------------
// history executor shared by the partition / restart / cleanup monitors

#[derive(Clone, Debug)]
pub enum HOp {
    Write(log::Level, usize),
    Trigger,
    Flush,
    Advance(i64),
    /// orderly stop of the logger and start of a new one on the same family
    Restart { append: bool },
    /// reopen_output() with the current file in place (a SIGHUP handler that fires although the
    /// external rotator had nothing to do): nothing changes for the records or the rotation
    Reopen,
    /// an explicit rotation during which the new file cannot be opened (injected at the fs point
    /// `open`): the logger goes on in the file it has, nothing changes for records, sizes, periods
    /// or the name the file gets when it is rotated later
    TriggerFailingOpen,
    /// a record (level, length) whose message logs another record (length) while it is formatted
    WriteNested(log::Level, usize, usize),
}

pub struct Hist {
    pub cfg: FlwCfg,
    pub driver: Driver,
    pub model: Model,
    pub seq: u64,
    pub run: u64,
    pub records: u64,
    pub restarts: u64,
    pub triggers_effective: u64,
    pub advanced_seconds: bool,
}

impl Hist {
    pub fn start(cfg: FlwCfg) -> Result<Hist, String> {
        let driver = Driver::build(&cfg)?;
        let model = Model::new(&cfg);
        Ok(Hist {
            cfg,
            driver,
            model,
            seq: 0,
            run: 0,
            records: 0,
            restarts: 0,
            triggers_effective: 0,
            advanced_seconds: false,
        })
    }

    pub fn now(&self) -> i64 {
        ctl::clock_get().unwrap_or(0)
    }

    /// applies one operation to the real logger and to the model
    pub fn apply(&mut self, op: &HOp) -> Result<(), String> {
        match op {
            HOp::Write(level, len) => {
                let msg = msg_exact(self.seq, *len);
                self.seq += 1;
                self.driver.write(*level, &msg);
                if *level <= self.cfg.max_level {
                    let mut line = self.cfg.fmt.expected(*level, &msg);
                    line.extend_from_slice(self.cfg.line_ending());
                    let now = self.now();
                    self.model.write(&line, self.cfg.append, now);
                }
                self.records += 1;
            }
            HOp::TriggerFailingOpen => {
                if self.model.active {
                    let n = ctl::with_ctl(|c| c.counts.get("open").copied().unwrap_or(0));
                    ctl::with_ctl(|c| {
                        c.plan.push(ctl::PlanItem {
                            name: "open".into(),
                            from: n + 1,
                            to: n + 1,
                            action: ctl::Action::Fail(std::io::ErrorKind::PermissionDenied),
                        });
                    });
                    let _ = self.driver.rotate();
                    ctl::with_ctl(|c| c.plan.clear());
                }
            }
            HOp::WriteNested(level, len_outer, len_inner) => {
                let inner = msg_exact(self.seq, *len_inner);
                let outer = msg_exact(self.seq + 1, *len_outer);
                self.seq += 2;
                self.driver.write_nested(*level, &outer, &inner);
                if *level <= self.cfg.max_level {
                    let now = self.now();
                    for m in [&inner, &outer] {
                        let mut line = self.cfg.fmt.expected(*level, m);
                        line.extend_from_slice(self.cfg.line_ending());
                        self.model.write(&line, self.cfg.append, now);
                    }
                }
                self.records += 2;
            }
            HOp::Trigger => {
                let now = self.now();
                if self.model.active {
                    self.triggers_effective += 1;
                }
                self.model.trigger(now);
                self.driver.rotate()?;
            }
            HOp::Flush => self.driver.flush(),
            HOp::Reopen => self.driver.reopen()?,
            HOp::Advance(d) => {
                let before = self.now() / 1_000_000_000;
                ctl::clock_advance(*d);
                if self.now() / 1_000_000_000 != before {
                    self.advanced_seconds = true;
                }
            }
            HOp::Restart { append } => {
                self.driver.shutdown();
                self.cfg.append = *append;
                self.model.restart(&self.cfg);
                self.driver = Driver::build(&self.cfg)?;
                self.run += 1;
                self.restarts += 1;
            }
        }
        Ok(())
    }

    pub fn observe(&self) -> std::io::Result<DirObs> {
        family::observe(&self.cfg.names)
    }

    pub fn shutdown(&mut self) {
        self.driver.shutdown();
    }
}

/// installs the controllers for a deterministic in-process history
pub fn install_virtual(t0: i64) {
    ctl::install(false);
    ctl::clock_set(t0);
    ctl::with_ctl(|c| c.use_creation_table = true);
}
pub fn uninstall_virtual() {
    ctl::uninstall();
    ctl::clock_unset();
}

/// creates a pre-existing current file (content + virtual creation instant) and tells the model
pub fn preexisting_current(cfg: &FlwCfg, model: &mut Model, content: Vec<u8>, created_ns: i64) {
    let infix = match &cfg.names.naming {
        NamingK::NoRotation => String::new(),
        NamingK::Numbers | NamingK::Timestamps => family::CURRENT.to_string(),
        NamingK::Custom { current: Some(c), .. } => c.clone(),
        NamingK::NumbersDirect => "r00000".to_string(),
        NamingK::TimestampsDirect | NamingK::Custom { current: None, .. } => {
            let fmt = cfg.names.naming.ts_fmt().unwrap();
            let t = ctl::local_from_ns(created_ns);
            if cfg.use_utc {
                t.naive_utc().format(fmt).to_string()
            } else {
                t.format(fmt).to_string()
            }
        }
    };
    let p = cfg.names.path(&infix);
    std::fs::write(&p, &content).expect("cannot create pre-existing file");
    ctl::creation_register(&p, created_ns);
    model.current = Some(Seg {
        content,
        started_ns: created_ns,
        gz: false,
    });
}


// ------------------------------------------------------------------------------------------
// survivor oracle shared by C06 (tolerant) and C07 (strict), Appendix C

/// The observed rotated files must be a contiguous newest tail of the model's rotated segments
/// (the model never trims), the current file must match; with `strict` the upper bounds of the
/// cleanup strategy and the "compressed files are the older ones" rule are enforced as well.
pub fn survivor_check(
    cfg: &FlwCfg,
    model: &Model,
    obs: &DirObs,
    strict: bool,
) -> Result<(), (String, String)> {
    let (k, m) = cfg.clean.limits().unwrap_or((usize::MAX / 4, 0));
    let direct = cfg.names.naming.is_direct();
    if obs.has_twins() {
        return Err((
            "twin".into(),
            format!("a file and its .gz twin coexist: {:?}", obs.names()),
        ));
    }
    let exp_rot = &model.rotated;
    let exp_cur = model.current.as_ref();
    // split the observation
    let (obs_rot, obs_cur): (&[family::FileObs], Option<&family::FileObs>) = if direct
        || cfg.names.naming == NamingK::NoRotation
    {
        if exp_cur.is_some() && !obs.family.is_empty() {
            (&obs.family[..obs.family.len() - 1], obs.family.last())
        } else {
            (&obs.family[..], None)
        }
    } else {
        match obs.family.last() {
            Some(l) if matches!(l.entry.kind, Kind::Current) => {
                (&obs.family[..obs.family.len() - 1], Some(l))
            }
            _ => (&obs.family[..], None),
        }
    };
    match (exp_cur, obs_cur) {
        (Some(_), None) => {
            return Err((
                "current-file-missing".into(),
                format!("the current file is missing: {:?}", obs.names()),
            ))
        }
        (None, Some(o)) => {
            return Err((
                "unexpected-current-file".into(),
                format!("{} exists although nothing was written to it", o.entry.name),
            ))
        }
        (Some(e), Some(o)) => {
            if o.entry.gz {
                return Err((
                    "current-file-compressed".into(),
                    format!("the file currently written to is compressed: {:?}", obs.names()),
                ));
            }
            let c = o.content.as_ref().map_err(|e| ("unreadable".to_string(), e.clone()))?;
            if let Some(d) = diff_bytes(&e.content, c) {
                return Err((
                    "current-file-content".into(),
                    format!("current file {}: {d}; all {:?}", o.entry.name, obs.names()),
                ));
            }
        }
        (None, None) => {}
    }
    if obs_rot.len() > exp_rot.len() {
        return Err((
            "file-count".into(),
            format!(
                "found {} rotated files {:?} but only {} were ever written",
                obs_rot.len(),
                obs.names(),
                exp_rot.len()
            ),
        ));
    }
    let off = exp_rot.len() - obs_rot.len();
    for (i, o) in obs_rot.iter().enumerate() {
        let c = o
            .content
            .as_ref()
            .map_err(|e| ("gz-undecodable".to_string(), format!("{}: {e}", o.entry.name)))?;
        if let Some(d) = diff_bytes(&exp_rot[off + i].content, c) {
            return Err((
                "not-newest-tail".into(),
                format!(
                    "rotated file {} (#{i} of {:?}) is not segment #{} of the {} rotated segments: {d}",
                    o.entry.name,
                    obs.names(),
                    off + i,
                    exp_rot.len()
                ),
            ));
        }
    }
    let n_gz = obs_rot.iter().filter(|f| f.entry.gz).count();
    let n_plain = obs_rot.len() - n_gz;
    if strict {
        if n_plain > k {
            return Err((
                "too-many-plain".into(),
                format!("{n_plain} rotated plain files exceed the limit {k}: {:?}", obs.names()),
            ));
        }
        if n_gz > m {
            return Err((
                "too-many-compressed".into(),
                format!("{n_gz} compressed files exceed the limit {m}: {:?}", obs.names()),
            ));
        }
        if let Some(first_plain) = obs_rot.iter().position(|f| !f.entry.gz) {
            if obs_rot[first_plain..].iter().any(|f| f.entry.gz) {
                return Err((
                    "newer-file-compressed".into(),
                    format!(
                        "a compressed file is newer than a plain rotated one: {:?}",
                        obs.names()
                    ),
                ));
            }
        }
    }
    let delta = usize::from(direct && exp_cur.is_some());
    let lower = exp_rot.len().min(k.saturating_add(m)).saturating_sub(delta);
    if obs_rot.len() < lower {
        return Err((
            "lost-beyond-limit".into(),
            format!(
                "only {} rotated files survive ({:?}) although the limits ({k} plain, {m} compressed) permit {lower} of the {} written",
                obs_rot.len(),
                obs.names(),
                exp_rot.len()
            ),
        ));
    }
    Ok(())
}

impl Model {
    /// the current file was renamed/removed externally and the output re-opened at the same
    /// path: its content so far leaves the family, the counters of the logger are not reset
    pub fn external_take_current(&mut self) -> Option<Seg> {
        let now_started = self.current.as_ref().map(|c| c.started_ns)?;
        let taken = self.current.take();
        self.current = Some(Seg {
            content: Vec::new(),
            started_ns: now_started,
            gz: false,
        });
        taken
    }
}
