//! Controllers behind the flexi_logger verification hooks: virtual clock, creation-time table,
//! fs-point trace, fault/crash plan, scheduling noise and the thread-parking schedule controller.
//!
//! Rules (DESIGN §9.3): the clock is an atomic inside the crate's hook module; handlers never
//! call into flexi_logger and never log; every lock taken in a handler is a leaf lock; nothing
//! is held while sleeping or parking.

use chrono::{DateTime, Local, TimeZone};
use flexi_logger::verif_hooks as vh;
use std::collections::{HashMap, HashSet};
use std::path::{Path, PathBuf};
use std::sync::{Arc, Condvar, Mutex, MutexGuard};
use std::time::{Duration, Instant};

// ------------------------------------------------------------------------------------------
// virtual clock

pub fn clock_set(ns: i64) {
    vh::set_virtual_now_ns(Some(ns));
}
pub fn clock_unset() {
    vh::set_virtual_now_ns(None);
    vh::set_auto_tick_ns(0);
}
pub fn clock_get() -> Option<i64> {
    vh::virtual_now_ns()
}
pub fn clock_advance(ns: i64) {
    if let Some(now) = vh::virtual_now_ns() {
        vh::set_virtual_now_ns(Some(now + ns));
    }
}
pub fn clock_autotick(ns: i64) {
    vh::set_auto_tick_ns(ns);
}
pub fn local_from_ns(ns: i64) -> DateTime<Local> {
    Local.timestamp_nanos(ns)
}

/// UTC is forced per process (it cannot be taken back): some C20 shards run with it.
static FORCED_UTC: std::sync::atomic::AtomicBool = std::sync::atomic::AtomicBool::new(false);
pub fn set_forced_utc() {
    FORCED_UTC.store(true, std::sync::atomic::Ordering::SeqCst);
}
pub fn forced_utc() -> bool {
    FORCED_UTC.load(std::sync::atomic::Ordering::SeqCst)
}
/// the text a record timestamp is expected to have: local time, or UTC where it is forced
pub fn ts_text(ns: i64, fmt: &str) -> String {
    if forced_utc() {
        chrono::Utc.timestamp_nanos(ns).format(fmt).to_string()
    } else {
        Local.timestamp_nanos(ns).format(fmt).to_string()
    }
}

// ------------------------------------------------------------------------------------------
// plan / trace / creation table

#[derive(Clone, Debug, PartialEq, Eq)]
pub enum Action {
    Fail(std::io::ErrorKind),
    Abort,
}

#[derive(Clone, Debug)]
pub struct PlanItem {
    pub name: String,
    /// 1-based occurrence range (inclusive) of this point name
    pub from: u32,
    pub to: u32,
    pub action: Action,
}

#[derive(Clone, Debug)]
pub struct Ev {
    pub name: String,
    pub p1: Option<PathBuf>,
    pub p2: Option<PathBuf>,
    pub thread: String,
    pub occ: u32,
    pub injected: bool,
}

#[derive(Default)]
pub struct Ctl {
    pub tracing: bool,
    pub trace: Vec<Ev>,
    pub counts: HashMap<String, u32>,
    pub plan: Vec<PlanItem>,
    pub creation: HashMap<PathBuf, i64>,
    pub use_creation_table: bool,
    pub injected: Vec<(String, u32)>,
    pub noise_state: u64,
    pub noise_points: Vec<String>,
    pub noise_max_us: u64,
    /// per-point fixed delay (microseconds), applied to threads whose name contains the filter
    pub delays: Vec<(String, String, u64)>,
    /// global event counter: index of the next fs point (for "abort at the n-th point overall")
    pub total: u32,
    pub abort_at_total: Option<u32>,
    /// the last rename of a current file that the creation table followed
    pub last_rename: Option<(PathBuf, PathBuf)>,
    /// marker access() emitted for strace cross-checks
    pub emit_marker: bool,
}

static CTL: Mutex<Option<Ctl>> = Mutex::new(None);

fn lock_ctl() -> MutexGuard<'static, Option<Ctl>> {
    CTL.lock().unwrap_or_else(std::sync::PoisonError::into_inner)
}

pub fn with_ctl<R>(f: impl FnOnce(&mut Ctl) -> R) -> R {
    let mut g = lock_ctl();
    if g.is_none() {
        *g = Some(Ctl::default());
    }
    f(g.as_mut().unwrap())
}

/// Installs the handlers (idempotent) and resets all controller state except the creation table
/// when `keep_creation` is set.
pub fn install(keep_creation: bool) {
    with_ctl(|c| {
        let creation = std::mem::take(&mut c.creation);
        *c = Ctl::default();
        if keep_creation {
            c.creation = creation;
        }
    });
    vh::set_point_handler(Some(Arc::new(handler)));
    vh::set_creation_lookup(Some(Arc::new(creation_lookup)));
}

pub fn uninstall() {
    vh::set_point_handler(None);
    vh::set_creation_lookup(None);
    with_ctl(|c| *c = Ctl::default());
    sched_reset();
}

fn creation_lookup(path: &Path) -> Option<DateTime<Local>> {
    let mut g = lock_ctl();
    let c = g.as_mut()?;
    if !c.use_creation_table {
        return None;
    }
    if let Some(ns) = c.creation.get(path) {
        return Some(local_from_ns(*ns));
    }
    // a rename that was announced at its hook point and then failed inside the system call (a real
    // fault, or one injected by strace): the file is still where it was
    if let Some((src, dst)) = c.last_rename.clone() {
        if src == path && path.exists() {
            if let Some(t) = c.creation.remove(&dst) {
                c.creation.insert(src, t);
                c.last_rename = None;
                return Some(local_from_ns(t));
            }
        }
    }
    None
}

pub fn creation_register(path: &Path, ns: i64) {
    with_ctl(|c| {
        c.creation.insert(path.to_path_buf(), ns);
    });
}
pub fn creation_forget(path: &Path) {
    with_ctl(|c| {
        c.creation.remove(path);
    });
}

fn thread_name() -> String {
    std::thread::current()
        .name()
        .unwrap_or("<unnamed>")
        .to_string()
}

const FS_POINTS: &[&str] = &[
    "open",
    "write",
    "flush",
    "reopen",
    "rename_current",
    "rename_back",
    "cleanup_list",
    "cleanup_remove",
    "gz_create",
    "gz_open_src",
    "gz_copy",
    "gz_finish",
    "gz_remove_src",
    "read_dir",
    "symlink_remove",
    "symlink_create",
];

pub fn is_fs_point(name: &str) -> bool {
    FS_POINTS.contains(&name)
}

thread_local! {
    static EXEMPT: std::cell::Cell<bool> = const { std::cell::Cell::new(false) };
}
/// Runs `f` with the hook points switched off for this thread: what happens inside is neither
/// counted nor traced nor hit by the fault plan (used for a bystander writer).
pub fn exempt<R>(f: impl FnOnce() -> R) -> R {
    let before = EXEMPT.with(|e| e.replace(true));
    let r = f();
    EXEMPT.with(|e| e.set(before));
    r
}

fn handler(name: &str, p1: Option<&Path>, p2: Option<&Path>) -> std::io::Result<()> {
    if EXEMPT.with(std::cell::Cell::get) {
        return Ok(());
    }
    let tname = thread_name();
    let mut action: Option<Action> = None;
    let mut sleep_us: u64 = 0;
    let mut marker = false;
    {
        let mut g = lock_ctl();
        if let Some(c) = g.as_mut() {
            let occ = {
                let e = c.counts.entry(name.to_string()).or_insert(0);
                *e += 1;
                *e
            };
            for item in &c.plan {
                if item.name == name && occ >= item.from && occ <= item.to {
                    action = Some(item.action.clone());
                }
            }
            if is_fs_point(name) {
                c.total += 1;
                if c.abort_at_total == Some(c.total) {
                    action = Some(Action::Abort);
                }
            }
            if c.tracing {
                c.trace.push(Ev {
                    name: name.to_string(),
                    p1: p1.map(Path::to_path_buf),
                    p2: p2.map(Path::to_path_buf),
                    thread: tname.clone(),
                    occ,
                    injected: action.is_some(),
                });
            }
            if action.is_some() {
                c.injected.push((name.to_string(), occ));
            } else if c.use_creation_table {
                // shadow the effect that is about to happen, like a birth time would
                let vnow = vh::virtual_now_ns();
                match name {
                    "open" | "reopen" => {
                        if let (Some(p), Some(now)) = (p1, vnow) {
                            if !p.exists() {
                                c.creation.insert(p.to_path_buf(), now);
                            }
                        }
                    }
                    // the current file gets its name back after a failed open: undo the last move
                    "rename_back" => {
                        if let (Some(cur), Some((src, dst))) = (p2, c.last_rename.take()) {
                            if src == cur && !cur.exists() {
                                if let Some(t) = c.creation.remove(&dst) {
                                    c.creation.insert(src, t);
                                }
                            }
                        }
                    }
                    "rename_current" => {
                        if let (Some(src), Some(dst)) = (p1, p2) {
                            if src.exists() {
                                if let Some(t) = c.creation.remove(src) {
                                    c.creation.insert(dst.to_path_buf(), t);
                                }
                                c.last_rename = Some((src.to_path_buf(), dst.to_path_buf()));
                            }
                        }
                    }
                    "cleanup_remove" | "gz_remove_src" => {
                        if let Some(p) = p1 {
                            c.creation.remove(p);
                        }
                    }
                    _ => {}
                }
            }
            if c.noise_state != 0 && c.noise_points.iter().any(|p| p == name) {
                c.noise_state = crate::rng::mix(c.noise_state);
                let r = c.noise_state;
                // 1/2: nothing, 1/4: yield, 1/4: sleep 0..max us
                match r & 3 {
                    0 | 1 => {}
                    2 => sleep_us = 1, // marker for yield
                    _ => sleep_us = 2 + (r >> 8) % c.noise_max_us.max(1),
                }
            }
            for (pt, tfilter, us) in &c.delays {
                if pt == name && tname.contains(tfilter.as_str()) {
                    sleep_us = sleep_us.max(*us + 2);
                }
            }
            marker = c.emit_marker;
        }
    }
    if marker && is_fs_point(name) {
        // visible to strace as a syscall on a recognisable path
        let _ = std::fs::metadata(format!("/__flmon_point__/{name}"));
    }
    if sleep_us == 1 {
        std::thread::yield_now();
    } else if sleep_us > 1 {
        std::thread::sleep(Duration::from_micros(sleep_us - 2));
    }
    sched_maybe_park(&tname, name);
    match action {
        Some(Action::Fail(kind)) => Err(std::io::Error::new(kind, "flmon: injected fault")),
        Some(Action::Abort) => {
            // die like a killed process: no unwinding, no destructors, no flushing
            unsafe { libc::_exit(77) }
        }
        None => Ok(()),
    }
}

// ------------------------------------------------------------------------------------------
// schedule controller: registered threads park at selected points until released

#[derive(Default)]
struct Sched {
    enabled: bool,
    controlled: HashSet<String>,
    points: HashSet<String>,
    parked: HashMap<String, String>,
    release: HashSet<String>,
    finished: HashSet<String>,
    /// threads the harness did not spawn (the specfile watcher): they count as finished as soon
    /// as they are released from this point
    finish_after: HashMap<String, String>,
    log: Vec<(String, String)>,
}

static SCHED: Mutex<Option<Sched>> = Mutex::new(None);
static SCHED_CV: Condvar = Condvar::new();

fn lock_sched() -> MutexGuard<'static, Option<Sched>> {
    SCHED.lock().unwrap_or_else(std::sync::PoisonError::into_inner)
}

pub fn sched_reset() {
    let mut g = lock_sched();
    // release everybody who may still be parked
    if let Some(s) = g.as_mut() {
        s.enabled = false;
    }
    *g = None;
    SCHED_CV.notify_all();
}

pub fn sched_control(threads: &[&str], points: &[&str]) {
    let mut g = lock_sched();
    *g = Some(Sched {
        enabled: true,
        controlled: threads.iter().map(|s| (*s).to_string()).collect(),
        points: points.iter().map(|s| (*s).to_string()).collect(),
        ..Sched::default()
    });
}

fn sched_maybe_park(tname: &str, point: &str) {
    let mut g = lock_sched();
    {
        let Some(s) = g.as_mut() else { return };
        if !s.enabled || !s.controlled.contains(tname) || !s.points.contains(point) {
            return;
        }
        s.parked.insert(tname.to_string(), point.to_string());
        s.log.push((tname.to_string(), point.to_string()));
    }
    SCHED_CV.notify_all();
    loop {
        match g.as_mut() {
            None => return,
            Some(s) => {
                if !s.enabled {
                    return;
                }
                if s.release.remove(tname) {
                    s.parked.remove(tname);
                    if s.finish_after.get(tname).map(String::as_str) == Some(point) {
                        s.finished.insert(tname.to_string());
                        SCHED_CV.notify_all();
                    }
                    return;
                }
            }
        }
        g = SCHED_CV
            .wait_timeout(g, Duration::from_millis(200))
            .unwrap_or_else(std::sync::PoisonError::into_inner)
            .0;
    }
}

/// Harness-side park: a controlled thread spawned by the harness stops here (e.g. between two
/// operations of its script) exactly as it would at a hook point of the crate.
pub fn sched_park(point: &str) {
    sched_maybe_park(&thread_name(), point);
}

/// Replaces the set of points at which controlled threads park (state and log are kept).
pub fn sched_set_points(points: &[&str]) {
    let mut g = lock_sched();
    if let Some(s) = g.as_mut() {
        s.points = points.iter().map(|s| (*s).to_string()).collect();
    }
}

/// Adds a thread to the controlled ones.
pub fn sched_add_thread(tname: &str) {
    let mut g = lock_sched();
    if let Some(s) = g.as_mut() {
        s.controlled.insert(tname.to_string());
    }
}

/// A controlled thread that the harness did not spawn finishes when released from `point`.
pub fn sched_finish_after(tname: &str, point: &str) {
    let mut g = lock_sched();
    if let Some(s) = g.as_mut() {
        s.finish_after.insert(tname.to_string(), point.to_string());
    }
}

/// Called by harness-spawned controlled threads when their operation has returned.
pub fn sched_finished(tname: &str) {
    let mut g = lock_sched();
    if let Some(s) = g.as_mut() {
        s.finished.insert(tname.to_string());
    }
    SCHED_CV.notify_all();
}

#[derive(Debug, PartialEq, Eq)]
pub enum Parked {
    At(String),
    Finished,
    Timeout,
}

/// Waits until the thread is parked at a point or finished.
pub fn sched_wait(tname: &str, timeout: Duration) -> Parked {
    let deadline = Instant::now() + timeout;
    let mut g = lock_sched();
    loop {
        if let Some(s) = g.as_ref() {
            if let Some(p) = s.parked.get(tname) {
                if !s.release.contains(tname) {
                    return Parked::At(p.clone());
                }
            }
            if s.finished.contains(tname) {
                return Parked::Finished;
            }
        } else {
            return Parked::Timeout;
        }
        let now = Instant::now();
        if now >= deadline {
            return Parked::Timeout;
        }
        g = SCHED_CV
            .wait_timeout(g, (deadline - now).min(Duration::from_millis(100)))
            .unwrap_or_else(std::sync::PoisonError::into_inner)
            .0;
    }
}

/// Non-blocking: where is the thread right now?
pub fn sched_peek(tname: &str) -> Parked {
    let g = lock_sched();
    if let Some(s) = g.as_ref() {
        if let Some(p) = s.parked.get(tname) {
            if !s.release.contains(tname) {
                return Parked::At(p.clone());
            }
        }
        if s.finished.contains(tname) {
            return Parked::Finished;
        }
    }
    Parked::Timeout
}

pub fn sched_release(tname: &str) {
    let mut g = lock_sched();
    if let Some(s) = g.as_mut() {
        s.release.insert(tname.to_string());
    }
    SCHED_CV.notify_all();
}

/// Releases the thread and waits until it has taken the release (it is running again).
pub fn sched_release_sync(tname: &str, timeout: Duration) -> bool {
    sched_release(tname);
    let deadline = Instant::now() + timeout;
    loop {
        {
            let g = lock_sched();
            match g.as_ref() {
                None => return false,
                Some(s) => {
                    if !s.release.contains(tname) {
                        return true;
                    }
                }
            }
        }
        if Instant::now() >= deadline {
            return false;
        }
        std::thread::yield_now();
    }
}

/// Releases the thread and waits until it parks again or finishes.
pub fn sched_step(tname: &str, timeout: Duration) -> Parked {
    {
        let mut g = lock_sched();
        if let Some(s) = g.as_mut() {
            s.release.insert(tname.to_string());
        }
        SCHED_CV.notify_all();
    }
    // wait until the release has been consumed, then until parked/finished
    let deadline = Instant::now() + timeout;
    loop {
        {
            let g = lock_sched();
            match g.as_ref() {
                None => return Parked::Timeout,
                Some(s) => {
                    if !s.release.contains(tname) {
                        break;
                    }
                }
            }
        }
        if Instant::now() >= deadline {
            return Parked::Timeout;
        }
        std::thread::sleep(Duration::from_micros(50));
    }
    let now = Instant::now();
    sched_wait(
        tname,
        if deadline > now {
            deadline - now
        } else {
            Duration::from_millis(1)
        },
    )
}

pub fn sched_log() -> Vec<(String, String)> {
    lock_sched().as_ref().map(|s| s.log.clone()).unwrap_or_default()
}
