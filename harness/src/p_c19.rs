//! C19 — I/O failures are reported, lose only the failing write, and logging recovers.
//! Step 1 traces the fs points of a history; step 2 re-runs it once per (point kind, occurrence)
//! with a single injected failure and with bursts of 2–5 consecutive failures. Oracle: Appendix E.
//! Real faults (no hook) as cross-check: rotation target blocked by a non-empty directory,
//! RLIMIT_FSIZE in a child.

use crate::child::{self, ChildArgs};
use crate::ctl::{self, Action, PlanItem};
use crate::family::{self, NameCfg, NamingK};
use crate::flw::{self, Clean, Crit, Driver, FlwCfg, FmtK, WMode};
use crate::rng::Rng;
use crate::util::{CaseCtx, CaseResult, Verdict};
use serde_json::json;
use std::io::ErrorKind;

#[derive(Clone, Debug)]
enum Op {
    Write(usize),
    Trigger,
    Flush,
}

const FAULT_POINTS: &[&str] = &[
    "open",
    "rename_current",
    "write",
    "flush",
    "cleanup_remove",
    "gz_create",
    "gz_open_src",
    "gz_copy",
    "gz_finish",
    "gz_remove_src",
    // (the listing of the directory: fails a rotation or the start, is swallowed by the cleanup)
    "read_dir",
];

struct RunOut {
    /// ids present in the family files, in stream order
    ids: Vec<u64>,
    /// per write op: (id, faults injected during the call, error-channel lines during the call)
    calls: Vec<(u64, Vec<(String, u32)>, usize)>,
    /// per trigger op: (faults injected, error lines)
    triggers: Vec<(Vec<(String, u32)>, usize)>,
    files_before_tail: usize,
    files_after_tail: usize,
    trace: Vec<(String, u32)>,
    damaged: Option<String>,
    tail_ids: Vec<u64>,
    /// id -> index of the family file (in stream order) that holds it
    file_of: std::collections::HashMap<u64, usize>,
    /// after shutdown: (plain files that count against the log limit, compressed files, names)
    survivors: (usize, usize, Vec<String>),
    /// what is wrong with the output of the bystander writer, if anything
    bystander: Option<String>,
    /// records that disappeared although older records stayed (seen between two operations)
    vanished: Option<String>,
    /// after each operation: file name (without .gz; of twins the plain file) -> (hash, length) of
    /// the content; taken for number namings with the cleanup in the logging thread
    snaps: Vec<std::collections::HashMap<String, (u64, usize)>>,
}

/// ids that are in the family files right now (of a plain file and its .gz twin the plain one counts)
fn present_ids(names: &NameCfg) -> Vec<u64> {
    let mut ids = Vec::new();
    let Ok(obs) = family::observe(names) else { return ids };
    let mut i = 0;
    while i < obs.family.len() {
        let f = &obs.family[i];
        let twin = obs
            .family
            .get(i + 1)
            .filter(|g| g.entry.kind == f.entry.kind && g.entry.gz != f.entry.gz);
        let (pick, step) = match twin {
            Some(g) => (if f.entry.gz { g } else { f }, 2),
            None => (f, 1),
        };
        if let Ok(c) = &pick.content {
            for line in String::from_utf8_lossy(c).split('\n') {
                if let Some((0, 0, s)) = flw::parse_msg_id(line) {
                    ids.push(s);
                }
            }
        }
        i += step;
    }
    ids.sort_unstable();
    ids
}

fn snapshot(names: &NameCfg) -> std::collections::HashMap<String, (u64, usize)> {
    let mut m = std::collections::HashMap::new();
    let Ok(obs) = family::observe(names) else { return m };
    for f in &obs.family {
        let stem = f.entry.name.trim_end_matches(".gz").to_string();
        if let Ok(c) = &f.content {
            // the plain twin (sorted first) wins
            m.entry(stem).or_insert((crate::rng::mix(c.iter().fold(0xcbf2_9ce4_8422_2325u64, |h, b| (h ^ u64::from(*b)).wrapping_mul(0x0000_0100_0000_01B3))), c.len()));
        }
    }
    m
}

fn run_history(
    cfg: &FlwCfg,
    ops: &[Op],
    plan: &[PlanItem],
    t0: i64,
    tracing: bool,
    tail: usize,
) -> Result<RunOut, String> {
    let _ = std::fs::remove_dir_all(&cfg.names.dir);
    flw::install_virtual(t0);
    ctl::with_ctl(|c| {
        c.tracing = tracing;
        c.plan = plan.to_vec();
        // a background cleanup thread that lags behind the logging thread (it is held back a
        // little where it takes a request): what it finds then is no longer what the rotation
        // that asked for the cleanup had left
        if cfg.clean_bg && !plan.is_empty() {
            c.delays.push(("cleanup_act".into(), "cleanup".into(), 300));
        }
    });
    let _ = flw::take_error_channel();
    let mut driver = Driver::build(cfg)?;
    let mut out = RunOut {
        ids: Vec::new(),
        calls: Vec::new(),
        triggers: Vec::new(),
        files_before_tail: 0,
        files_after_tail: 0,
        trace: Vec::new(),
        damaged: None,
        tail_ids: Vec::new(),
        file_of: std::collections::HashMap::new(),
        survivors: (0, 0, Vec::new()),
        bystander: None,
        vanished: None,
        snaps: Vec::new(),
    };
    // a bystander: a second, independent file writer used from the same thread, whose own file
    // operations are exempt from the fault plan; whatever happens to the writer under test, the
    // bystander's file must hold exactly the bystander's records
    let by_dir = cfg.names.dir.with_file_name("bystander");
    let _ = std::fs::remove_dir_all(&by_dir);
    let bystander = ctl::exempt(|| {
        flexi_logger::writers::FileLogWriter::builder(
            flexi_logger::FileSpec::default()
                .directory(&by_dir)
                .basename("by")
                .suppress_timestamp()
                .suffix("log"),
        )
        .format(flw::fmt_raw)
        .try_build()
    })
    .map_err(|e| format!("cannot build the bystander writer: {e:?}"))?;
    let mut by_expected: Vec<u8> = Vec::new();
    let mut by_seq = 0u64;
    let mut by_write = |by_expected: &mut Vec<u8>| {
        use flexi_logger::writers::LogWriter;
        let m = flw::msg_id(7, 7, by_seq, 10);
        by_seq += 1;
        by_expected.extend_from_slice(m.as_bytes());
        by_expected.push(b'\n');
        ctl::exempt(|| {
            flw::with_record(log::Level::Info, "flmon::bystander", &m, |r| {
                let _ = bystander.write(&mut flexi_logger::DeferredNow::new(), r);
            });
        });
    };
    // Between two operations records may disappear only as the oldest ones that are there (the
    // cleanup removes whole files from the old end). Watched where the cleanup itself is hit by
    // faults and runs in the logging thread.
    let watch = !cfg.clean_bg
        && plan.iter().any(|p| p.name.starts_with("gz_") || p.name.starts_with("cleanup_"));
    let mut prev_ids: Vec<u64> = Vec::new();
    // what each file holds after each operation (compared with the fault-free run: a fault in the
    // cleanup never changes what a file of a given name holds; number namings never re-use names)
    let snap = !cfg.clean_bg
        && cfg.names.naming.is_numbers()
        && cfg.clean != Clean::Never
        && (plan.is_empty() || watch);
    let mut seq = 0u64;
    let injected_len = || ctl::with_ctl(|c| c.injected.len());
    let injected_from = |n: usize| ctl::with_ctl(|c| c.injected[n..].to_vec());
    for op in ops {
        let before = injected_len();
        match op {
            Op::Write(len) => {
                let m = flw::msg_id(0, 0, seq, *len);
                driver.write(log::Level::Info, &m);
                let errs = flw::take_error_channel()
                    .iter()
                    .filter(|l| l.contains("ERRCODE"))
                    .count();
                out.calls.push((seq, injected_from(before), errs));
                seq += 1;
                by_write(&mut by_expected);
            }
            Op::Trigger => {
                let _ = driver.rotate();
                let errs = flw::take_error_channel()
                    .iter()
                    .filter(|l| l.contains("ERRCODE"))
                    .count();
                out.triggers.push((injected_from(before), errs));
                by_write(&mut by_expected);
            }
            Op::Flush => {
                driver.flush();
                let _ = flw::take_error_channel();
            }
        }
        if snap {
            out.snaps.push(ctl::exempt(|| snapshot(&cfg.names)));
        }
        if watch && out.vanished.is_none() {
            let cur = ctl::exempt(|| present_ids(&cfg.names));
            let gone: Vec<u64> = prev_ids.iter().copied().filter(|i| !cur.contains(i)).collect();
            let stayed_min = prev_ids.iter().copied().filter(|i| cur.contains(i)).min();
            if let (Some(worst), Some(stayed)) = (gone.iter().max(), stayed_min) {
                if *worst > stayed {
                    out.vanished = Some(format!(
                        "after operation {op:?} the records {gone:?} are gone although the older record {stayed} is still there"
                    ));
                }
            }
            prev_ids = cur;
        }
    }
    // the faults have stopped: a tail of records that must make rotation resume
    ctl::with_ctl(|c| c.plan.clear());
    driver.flush();
    out.files_before_tail = family::observe(&cfg.names).map(|o| o.family.len()).unwrap_or(0);
    for _ in 0..tail {
        let m = flw::msg_id(0, 0, seq, 40);
        driver.write(log::Level::Info, &m);
        out.tail_ids.push(seq);
        seq += 1;
        if snap {
            out.snaps.push(ctl::exempt(|| snapshot(&cfg.names)));
        }
        if watch && out.vanished.is_none() {
            let cur = ctl::exempt(|| present_ids(&cfg.names));
            let gone: Vec<u64> = prev_ids.iter().copied().filter(|i| !cur.contains(i)).collect();
            let stayed_min = prev_ids.iter().copied().filter(|i| cur.contains(i)).min();
            if let (Some(worst), Some(stayed)) = (gone.iter().max(), stayed_min) {
                if *worst > stayed {
                    out.vanished = Some(format!(
                        "after tail record {} the records {gone:?} are gone although the older record {stayed} is still there",
                        seq - 1
                    ));
                }
            }
            prev_ids = cur;
        }
    }
    driver.shutdown();
    by_write(&mut by_expected);
    ctl::exempt(|| {
        use flexi_logger::writers::LogWriter;
        bystander.shutdown();
    });
    let by_got = std::fs::read(by_dir.join("by.log")).unwrap_or_default();
    if let Some(d) = flw::diff_bytes(&by_expected, &by_got) {
        out.bystander = Some(d);
    }
    out.trace = ctl::with_ctl(|c| {
        c.trace
            .iter()
            .filter(|e| ctl::is_fs_point(&e.name))
            .map(|e| (e.name.clone(), e.occ))
            .collect()
    });
    flw::uninstall_virtual();
    let _ = flw::take_error_channel();
    match family::observe(&cfg.names) {
        Err(e) => return Err(format!("cannot read the log directory: {e}")),
        Ok(obs) => {
            out.files_after_tail = obs.family.len();
            // what counts against the limits: with a current-infix naming the rotated plain
            // files, with a direct naming all plain files (the newest is the current one)
            let plain = obs
                .family
                .iter()
                .filter(|f| !f.entry.gz && f.entry.kind != family::Kind::Current)
                .count();
            let gz = obs.family.iter().filter(|f| f.entry.gz).count();
            out.survivors = (plain, gz, obs.names());
            // twins may coexist after a compression fault
            let mut i = 0;
            let mut stream = Vec::new();
            let mut note_ids = |idx: usize, c: &[u8], file_of: &mut std::collections::HashMap<u64, usize>| {
                for line in String::from_utf8_lossy(c).split('\n') {
                    if let Some((0, 0, s)) = flw::parse_msg_id(line) {
                        file_of.insert(s, idx);
                    }
                }
            };
            while i < obs.family.len() {
                let f = &obs.family[i];
                let twin = obs
                    .family
                    .get(i + 1)
                    .filter(|g| g.entry.kind == f.entry.kind && g.entry.gz != f.entry.gz);
                if let Some(g) = twin {
                    let plain = if f.entry.gz { g } else { f };
                    if let Ok(c) = &plain.content {
                        stream.extend_from_slice(c);
                        note_ids(i, c, &mut out.file_of);
                    }
                    i += 2;
                } else {
                    match &f.content {
                        Ok(c) => {
                            stream.extend_from_slice(c);
                            note_ids(i, c, &mut out.file_of);
                        }
                        Err(e) => out.damaged = Some(format!("{}: {e}", f.entry.name)),
                    }
                    i += 1;
                }
            }
            for line in String::from_utf8_lossy(&stream).split('\n') {
                if line.is_empty() {
                    continue;
                }
                match flw::parse_msg_id(line) {
                    Some((0, 0, s)) => out.ids.push(s),
                    _ => {
                        out.damaged = Some(format!(
                            "not an intact record: {:?}",
                            line.chars().take(80).collect::<String>()
                        ))
                    }
                }
            }
            if !obs.foreign.is_empty() {
                out.damaged = Some(format!("foreign files: {:?}", obs.foreign));
            }
        }
    }
    Ok(out)
}

fn gen(rng: &mut Rng, dir: &std::path::Path, thorough: bool) -> (FlwCfg, Vec<Op>, i64) {
    let naming = flw::gen_naming(rng, true);
    let names = NameCfg {
        dir: dir.join("logs"),
        basename: (*rng.pick(&["app", "x"])).to_string(),
        discr: None,
        start_ts: None,
        suffix: match rng.below(3) {
            0 => None,
            1 => Some("txt".into()),
            _ => Some("log".into()),
        },
        naming,
    };
    let cfg = FlwCfg {
        names,
        use_ts: false,
        crit: Some(Crit::Size(*rng.pick(&[0u64, 60, 150]))),
        clean: match rng.below(5) {
            0 => Clean::Logs(rng.range(1, 3) as usize),
            1 => Clean::Gz(rng.range(1, 3) as usize),
            2 => Clean::Both(1, rng.range(1, 2) as usize),
            _ => Clean::Never,
        },
        // now and then the cleanup runs in its own thread (fault occurrences are then counted
        // across both threads; the oracle does not depend on which call of a kind fails)
        clean_bg: rng.chance(1, 3),
        wmode: if rng.chance(1, 4) { WMode::BufDont(32) } else { WMode::Direct },
        crlf: false,
        append: rng.chance(1, 2),
        symlink: None,
        use_utc: false,
        max_level: log::LevelFilter::Trace,
        fmt: FmtK::Raw,
        l2: rng.chance(1, 3),
    };
    let n = rng.range(6, if thorough { 30 } else { 18 }) as usize;
    let mut ops = Vec::new();
    for _ in 0..n {
        ops.push(match rng.below(10) {
            0 => Op::Trigger,
            1 => Op::Flush,
            _ => Op::Write(rng.usize(50)),
        });
    }
    (cfg, ops, flw::base_time_ns(rng))
}

pub fn run_case(ctx: &mut CaseCtx) -> CaseResult {
    match ctx.case % 10 {
        8 if ctx.case % 40 == 28 => return failed_open_then_background_cleanup_case(ctx),
        8 if ctx.case % 20 == 18 => return name_too_long_case(ctx),
        8 => return blocked_target_case(ctx),
        9 => return rlimit_case(ctx),
        // failures of the system calls themselves, injected by strace (p_c19s.rs)
        7 => return crate::p_c19s::run_case(ctx),
        // hook faults while a logger starts on a directory with the files of an earlier run (p_c19r.rs)
        6 => return crate::p_c19r::run_case(ctx),
        _ => {}
    }
    let (cfg, ops, t0) = gen(&mut ctx.rng, &ctx.dir, ctx.thorough);
    let rng = &mut ctx.rng;
    let buffered = matches!(cfg.wmode, WMode::BufDont(_));
    let mut res = CaseResult::new(format!(
        "{}|{}|{}|{}",
        if cfg.l2 { "L2" } else { "L1" },
        cfg.names.naming.label(),
        cfg.clean.label(),
        cfg.wmode.label()
    ));
    let tail = 12usize;
    // step 1: trace
    let base = match run_history(&cfg, &ops, &[], t0, true, tail) {
        Ok(o) => o,
        Err(e) => {
            res.violate("build-failed", "C19/build-failed", e);
            return res;
        }
    };
    let n_writes = ops.iter().filter(|o| matches!(o, Op::Write(_))).count() as u64;
    let all_ids: Vec<u64> = (0..n_writes + tail as u64).collect();
    // with a cleanup limit an oldest prefix is legitimately gone
    let base_ok = if cfg.clean.limits().is_some() {
        all_ids.ends_with(&base.ids) && !base.ids.is_empty()
    } else {
        base.ids == all_ids
    };
    if !base_ok || base.damaged.is_some() {
        res.violate(
            "fault-free-run-differs",
            "C19/fault-free-run-differs",
            format!("without any fault: ids {:?}…, damaged {:?}", base.ids.iter().take(8).collect::<Vec<_>>(), base.damaged),
        );
        return res;
    }
    // step 2: plans
    let mut pairs: Vec<(String, u32)> = base
        .trace
        .iter()
        .filter(|(n, _)| FAULT_POINTS.contains(&n.as_str()))
        .cloned()
        .collect();
    pairs.sort();
    pairs.dedup();
    for (n, _) in &pairs {
        res.add_to_set("point_kinds_in_traces", n.clone());
    }
    let exhaustive = ctx.thorough && ctx.case % 2 == 0;
    let mut plans: Vec<(String, u32, u32)> = Vec::new();
    for (n, occ) in &pairs {
        plans.push((n.clone(), *occ, *occ));
    }
    // bursts of 2..5 consecutive failures
    let singles = plans.clone();
    for (n, occ, _) in &singles {
        if rng.chance(1, 3) {
            plans.push((n.clone(), *occ, *occ + rng.range(1, 4) as u32));
        }
    }
    if !exhaustive {
        for i in (1..plans.len()).rev() {
            let j = rng.usize(i + 1);
            plans.swap(i, j);
        }
        plans.truncate(if ctx.thorough { 60 } else { 14 });
    } else {
        res.count("histories_with_all_single_faults_enumerated", 1);
    }
    let kinds = [
        ErrorKind::PermissionDenied,
        ErrorKind::Other,
        ErrorKind::StorageFull,
        ErrorKind::Interrupted,
        ErrorKind::NotFound,
    ];
    let mut executed = 0u64;
    for (name, from, to) in plans {
        let kind = *rng.pick(&kinds);
        // NotFound at rename_current is "nothing to rename" for the crate, by design
        let kind = if name == "rename_current" && kind == ErrorKind::NotFound {
            ErrorKind::PermissionDenied
        } else {
            kind
        };
        let plan = vec![PlanItem {
            name: name.clone(),
            from,
            to,
            action: Action::Fail(kind),
        }];
        let facts = format!(
            "{name}/{}{}",
            if to > from { "burst" } else { "single" },
            if buffered { "/buffered" } else { "" }
        );
        let r = std::panic::catch_unwind(std::panic::AssertUnwindSafe(|| {
            run_history(&cfg, &ops, &plan, t0, false, tail)
        }));
        let panics = crate::util::take_panics();
        if let Some(p) = panics.iter().find(|p| crate::util::in_repo_file(&p.file)) {
            flw::uninstall_virtual();
            res.violate(
                "panic",
                format!("C19/panic/{name}/{}", crate::util::repo_rel(&p.file)),
                format!("fault {kind:?} at {name} #{from}..{to}: panic at {}: {}", p.location, p.message),
            );
            break;
        }
        let out = match r {
            Ok(Ok(o)) => o,
            Ok(Err(e)) => {
                res.violate(
                    "run-failed",
                    format!("C19/run-failed/{facts}"),
                    format!("fault {kind:?} at {name} #{from}..{to}: {e}"),
                );
                break;
            }
            Err(_) => {
                flw::uninstall_virtual();
                res.inconclusive("harness panic during a fault run");
                break;
            }
        };
        executed += 1;
        res.add_to_set("fault_points_executed", name.clone());
        res.count("faults_injected", out.calls.iter().map(|c| c.1.len() as u64).sum::<u64>()
            + out.triggers.iter().map(|c| c.0.len() as u64).sum::<u64>());
        let ctxt = format!("fault {kind:?} at {name} occurrence {from}..={to}");
        if let Some(d) = &out.damaged {
            res.violate("damaged-output", format!("C19/damaged-output/{facts}"), format!("{ctxt}: {d}"));
            break;
        }
        // rotated files (everything but the file being written, whose content depends on the
        // write mode's buffering) hold what they hold without the fault
        if (name.starts_with("gz_") || name.starts_with("cleanup_")) && !out.snaps.is_empty() {
            let mut diff = None;
            'ops: for (i, (a, b)) in base.snaps.iter().zip(out.snaps.iter()).enumerate() {
                for (fname, hb) in b {
                    if fname.contains("rCURRENT") {
                        continue;
                    }
                    if let Some(ha) = a.get(fname) {
                        if ha != hb {
                            diff = Some(format!(
                                "after operation #{i} the file {fname} holds {} bytes, without the fault {} bytes (different content)",
                                hb.1, ha.1
                            ));
                            break 'ops;
                        }
                    }
                }
            }
            res.count("per_operation_file_comparisons_with_fault_free_run", out.snaps.len() as u64);
            if let Some(d) = diff {
                res.violate(
                    "record-lost",
                    format!("C19/record-lost/rotated-file-differs-from-fault-free-run/{facts}"),
                    format!("{ctxt}: {d}"),
                );
                break;
            }
        }
        if let Some(d) = &out.vanished {
            res.violate(
                "record-lost",
                format!("C19/record-lost/vanished-from-the-middle/{facts}"),
                format!("{ctxt}: {d}"),
            );
            break;
        }
        if let Some(d) = &out.bystander {
            res.violate(
                "other-writer-disturbed",
                format!("C19/other-writer-disturbed/{facts}"),
                format!("{ctxt}: the file of an independent second file writer, used from the same thread and not hit by any fault, is not what was written to it: {d}"),
            );
            break;
        }
        // a fault in the cleanup of old files (remove, compress) is no reason to close the
        // current file at another point: records share a file iff they do in the fault-free run
        if name.starts_with("cleanup_") || name.starts_with("gz_") {
            let common: Vec<u64> = out
                .ids
                .iter()
                .copied()
                .filter(|i| base.file_of.contains_key(i) && out.file_of.contains_key(i))
                .collect();
            res.count("partition_pairs_compared_under_cleanup_faults", common.len().saturating_sub(1) as u64);
            for w in common.windows(2) {
                let same_base = base.file_of[&w[0]] == base.file_of[&w[1]];
                let same_here = out.file_of[&w[0]] == out.file_of[&w[1]];
                if same_base != same_here {
                    res.violate(
                        "partition-changed-by-cleanup-fault",
                        format!("C19/partition-changed-by-cleanup-fault/{facts}"),
                        format!(
                            "{ctxt}: records {} and {} are {} without the fault and {} with it (size criterion {:?})",
                            w[0],
                            w[1],
                            if same_base { "in one file" } else { "in different files" },
                            if same_here { "in one file" } else { "in different files" },
                            cfg.crit
                        ),
                    );
                    break;
                }
            }
            if res.verdict != Verdict::Held {
                break;
            }
        }
        // which records may be missing: own write failed, or (re-)initialisation failed
        let mut may_miss: Vec<u64> = Vec::new();
        let mut initialised = false;
        for (id, faults, errs) in &out.calls {
            let write_failed = faults.iter().any(|f| f.0 == "write");
            let init_failed = !initialised
                && faults
                    .iter()
                    .any(|f| f.0 == "open" || f.0 == "rename_current" || f.0 == "read_dir");
            if !init_failed {
                initialised = true;
            }
            // buffered mode: a failing write may hit the flush of earlier records' bytes, and
            // the record's own bytes may fail later — both sides are tolerated there
            // (a failing listing stops the start only where the start needs the list; the cleanup
            // that runs at the start shrugs it off, and whether the record is still there at the
            // end also depends on the cleanup limit: no report is demanded for it)
            let only_listing = init_failed
                && !write_failed
                && !faults.iter().any(|f| f.0 == "open" || f.0 == "rename_current");
            if write_failed || init_failed {
                may_miss.push(*id);
                if *errs == 0 && !only_listing {
                    res.violate(
                        "failure-not-reported",
                        format!("C19/failure-not-reported/{facts}/lost-record"),
                        format!("{ctxt}: the log call of record {id} hit {faults:?} but nothing was written to the error channel"),
                    );
                }
            } else if faults.iter().any(|f| f.0 == "open" || f.0 == "rename_current") && *errs == 0 {
                res.violate(
                    "failure-not-reported",
                    format!("C19/failure-not-reported/{facts}/failed-rotation"),
                    format!("{ctxt}: the rotation during the log call of record {id} failed ({faults:?}) without a report"),
                );
            }
        }
        if buffered {
            // a failed write of the BufWriter can drop what it had buffered: records logged since
            // the last successful flush are "in their own write" as far as the file is concerned
            let mut acc: Vec<u64> = Vec::new();
            for (id, faults, _) in &out.calls {
                acc.push(*id);
                if faults.iter().any(|f| f.0 == "write" || f.0 == "flush") {
                    may_miss.extend(acc.iter().copied());
                }
                if acc.len() > 8 {
                    acc.remove(0);
                }
            }
        }
        if res.verdict != Verdict::Held {
            break;
        }
        // stream oracle over the whole history
        for w in out.ids.windows(2) {
            if w[1] <= w[0] {
                res.violate(
                    "duplicate-or-reordered",
                    format!("C19/duplicate-or-reordered/{facts}"),
                    format!("{ctxt}: id {} then {}", w[0], w[1]),
                );
                break;
            }
        }
        let missing: Vec<u64> = all_ids
            .iter()
            .copied()
            .filter(|i| !out.ids.contains(i))
            .collect();
        let unexplained: Vec<u64> = missing
            .iter()
            .copied()
            .filter(|m| !may_miss.contains(m))
            .collect();
        // cleanup may legitimately remove an oldest prefix
        let first_present = out.ids.first().copied().unwrap_or(u64::MAX);
        let unexplained: Vec<u64> = if cfg.clean.limits().is_some() {
            unexplained.into_iter().filter(|m| *m > first_present).collect()
        } else {
            unexplained
        };
        if !unexplained.is_empty() && res.verdict == Verdict::Held {
            // (one class has a signature of its own: a rotation whose rename succeeded and whose
            // open failed leaves the writer on the renamed file, which a background cleanup takes
            // for a rotated file)
            let facts = if cfg.clean_bg && name == "open" && !cfg.names.naming.is_direct() {
                format!("{facts}/current-infix-naming+background-cleanup")
            } else {
                facts.clone()
            };
            res.violate(
                "record-lost",
                format!("C19/record-lost/{facts}"),
                format!(
                    "{ctxt}: records {:?} are missing although their own write did not fail (may miss: {:?})",
                    unexplained.iter().take(8).collect::<Vec<_>>(),
                    may_miss
                ),
            );
        }
        // recovery: all tail records are there, and rotation resumed
        if res.verdict == Verdict::Held {
            // with a cleanup limit only the newest record is guaranteed to be still there
            let must: Vec<u64> = if cfg.clean == Clean::Never {
                out.tail_ids.clone()
            } else {
                out.tail_ids.last().copied().into_iter().collect()
            };
            if let Some(t) = must.iter().find(|t| !out.ids.contains(t)) {
                res.violate(
                    "no-recovery",
                    format!("C19/no-recovery/{facts}/tail-record-lost"),
                    format!("{ctxt}: record {t} logged after the faults stopped is missing"),
                );
            } else if cfg.clean == Clean::Never && out.files_after_tail < out.files_before_tail + 2 {
                res.violate(
                    "no-recovery",
                    format!("C19/no-recovery/{facts}/rotation-did-not-resume"),
                    format!(
                        "{ctxt}: {} files before and {} after {tail} more records of 40 bytes (size limit {:?})",
                        out.files_before_tail, out.files_after_tail, cfg.crit
                    ),
                );
            }
        }
        // recovery of the cleanup: the tail rotated several times after the faults had stopped,
        // so at shutdown the configured limits hold again
        if res.verdict == Verdict::Held {
            if let Some((k, m)) = cfg.clean.limits() {
                let k_eff = if cfg.names.naming.is_direct() { k.max(1) } else { k };
                let (plain, gz, names) = &out.survivors;
                res.count("cleanup_limits_checked_after_recovery", 1);
                if *plain > k_eff || *gz > m {
                    res.violate(
                        "no-recovery",
                        format!(
                            "C19/no-recovery/{facts}/cleanup-limits-exceeded{}",
                            if cfg.clean_bg { "/background-thread" } else { "" }
                        ),
                        format!(
                            "{ctxt}: after {tail} more records and shutdown, {plain} plain and {gz} compressed files count against the limits ({k_eff}, {m}): {names:?}"
                        ),
                    );
                }
            }
        }
        if res.verdict != Verdict::Held {
            break;
        }
    }
    res.count("fault_plans_executed", executed);
    res.count("fs_point_occurrences_in_trace", pairs.len() as u64);
    res.nontrivial = executed >= 1;
    if ctx.case < 2 || res.verdict != Verdict::Held {
        res.sample = Some(json!({
            "config": cfg.to_json(),
            "ops": ops.iter().map(|o| format!("{o:?}")).collect::<Vec<_>>(),
            "traced_points": base.trace.iter().take(60).map(|(n, o)| format!("{n}#{o}")).collect::<Vec<_>>(),
        }));
    }
    res
}

// ------------------------------------------------------------------------------------------
// real fault: the rotation target name is blocked by a non-empty directory

fn blocked_target_case(ctx: &mut CaseCtx) -> CaseResult {
    let rng = &mut ctx.rng;
    let mut res = CaseResult::new("real-fault|rotation-target-blocked");
    let dir = ctx.dir.join("logs");
    let names = NameCfg {
        dir: dir.clone(),
        basename: "blk".into(),
        discr: None,
        start_ts: None,
        suffix: Some("log".into()),
        naming: NamingK::Numbers,
    };
    let cfg = FlwCfg {
        names,
        use_ts: false,
        crit: Some(Crit::Size(50)),
        clean: Clean::Never,
        clean_bg: false,
        wmode: WMode::Direct,
        crlf: false,
        append: false,
        symlink: None,
        use_utc: false,
        max_level: log::LevelFilter::Trace,
        fmt: FmtK::Raw,
        l2: rng.chance(1, 2),
    };
    let _ = std::fs::create_dir_all(&dir);
    flw::install_virtual(flw::base_time_ns(rng));
    let _ = flw::take_error_channel();
    let mut driver = match Driver::build(&cfg) {
        Ok(d) => d,
        Err(e) => {
            res.violate("build-failed", "C19/build-failed", e);
            flw::uninstall_virtual();
            return res;
        }
    };
    let mut seq = 0u64;
    let mut write_n = |driver: &Driver, n: u64, seq: &mut u64| {
        for _ in 0..n {
            driver.write(log::Level::Info, &flw::msg_id(0, 0, *seq, 30));
            *seq += 1;
        }
    };
    write_n(&driver, 4, &mut seq); // r00000 exists now, next rotation goes to r00001
    let blocked = dir.join("blk_r00001.log");
    let _ = std::fs::create_dir_all(blocked.join("inner"));
    let _ = flw::take_error_channel();
    write_n(&driver, 6, &mut seq);
    let reports = flw::take_error_channel()
        .iter()
        .filter(|l| l.contains("ERRCODE"))
        .count();
    // the fault clears
    let _ = std::fs::remove_dir_all(&blocked);
    write_n(&driver, 8, &mut seq);
    driver.shutdown();
    flw::uninstall_virtual();
    res.absorb_panics("C19", "rotation target blocked by a directory");
    if reports == 0 && res.verdict == Verdict::Held {
        res.violate(
            "failure-not-reported",
            "C19/failure-not-reported/real-fault/rotation-target-is-a-directory",
            "rename onto a non-empty directory failed but nothing was written to the error channel",
        );
    }
    if res.verdict == Verdict::Held {
        match family::observe(&cfg.names) {
            Ok(obs) => {
                let stream = obs.stream().unwrap_or_default();
                match crate::p_c03::check_stream(&stream, 0, &[seq], b"\n") {
                    Ok(rep) => res.count("lines_checked", rep.lines),
                    Err((kind, detail)) => res.violate(
                        "record-lost",
                        format!("C19/{kind}/real-fault/rotation-target-is-a-directory"),
                        detail,
                    ),
                }
                if obs.family.len() < 4 && res.verdict == Verdict::Held {
                    res.violate(
                        "no-recovery",
                        "C19/no-recovery/real-fault/rotation-target-is-a-directory",
                        format!("rotation did not resume after the directory was removed: {:?}", obs.names()),
                    );
                }
            }
            Err(e) => res.inconclusive(e.to_string()),
        }
    }
    res.count("real_fault_runs", 1);
    res.nontrivial = true;
    res
}

// ------------------------------------------------------------------------------------------
// A rotation whose rename succeeded and whose open failed leaves the writer on the file that now
// carries a rotated name. A background cleanup that takes up a request afterwards treats that
// file as a rotated one. The order is fixed with the schedule controller: the cleanup thread is
// parked where it takes the request of the previous rotation until the failed rotation is over.

fn failed_open_then_background_cleanup_case(ctx: &mut CaseCtx) -> CaseResult {
    let rng = &mut ctx.rng;
    let mut res = CaseResult::new("failed-open|then-background-cleanup");
    let dir = ctx.dir.join("logs");
    let naming = match rng.below(3) {
        0 => NamingK::Numbers,
        1 => NamingK::Timestamps,
        _ => NamingK::Custom { fmt: "%Y-%m-%d".into(), current: Some("rCURRENT".into()) },
    };
    let cfg = FlwCfg {
        names: NameCfg {
            dir: dir.clone(),
            basename: "app".into(),
            discr: None,
            start_ts: None,
            suffix: Some("log".into()),
            naming,
        },
        use_ts: false,
        // rotations only where the history asks for them
        crit: Some(Crit::Size(1_000_000)),
        clean: if rng.chance(1, 2) { Clean::Gz(3) } else { Clean::Logs(0) },
        clean_bg: true,
        wmode: WMode::Direct,
        crlf: false,
        append: false,
        symlink: None,
        use_utc: false,
        max_level: log::LevelFilter::Trace,
        fmt: FmtK::Raw,
        l2: rng.chance(1, 2),
    };
    const CLEANER: &str = "flexi_logger-fs-cleanup";
    flw::install_virtual(flw::base_time_ns(rng));
    let _ = flw::take_error_channel();
    let mut driver = match Driver::build(&cfg) {
        Ok(d) => d,
        Err(e) => {
            res.violate("build-failed", "C19/build-failed", e);
            flw::uninstall_virtual();
            return res;
        }
    };
    let w = |d: &Driver, seq: u64| d.write(log::Level::Info, &flw::msg_id(0, 0, seq, 20));
    w(&driver, 0);
    w(&driver, 1);
    // from now on the cleanup thread parks where it takes up a request
    ctl::sched_control(&[CLEANER], &["cleanup_act"]);
    let _ = driver.rotate(); // rotation 1: fine; its cleanup request waits
    w(&driver, 2);
    let parked = ctl::sched_wait(CLEANER, std::time::Duration::from_secs(10));
    // rotation 2: the rename works, the open fails
    let opens_so_far = ctl::with_ctl(|c| c.counts.get("open").copied().unwrap_or(0));
    ctl::with_ctl(|c| {
        c.plan = vec![PlanItem {
            name: "open".into(),
            from: opens_so_far + 1,
            to: opens_so_far + 1,
            action: Action::Fail(ErrorKind::PermissionDenied),
        }];
    });
    let r2 = driver.rotate();
    ctl::with_ctl(|c| c.plan.clear());
    // (an explicitly triggered rotation hands its error to the caller)
    let reported = r2.is_err() || flw::take_error_channel().iter().any(|l| l.contains("ERRCODE"));
    w(&driver, 3);
    // now the cleanup of rotation 1 runs
    ctl::sched_release(CLEANER);
    // it has nothing more to park at; give it the time to finish its work list
    let deadline = std::time::Instant::now() + std::time::Duration::from_secs(5);
    let work_done = |names: &NameCfg| -> bool {
        family::observe(names)
            .map(|o| o.family.iter().all(|f| f.entry.gz || f.entry.kind == family::Kind::Current) || o.family.len() <= 1)
            .unwrap_or(false)
    };
    while std::time::Instant::now() < deadline && !work_done(&cfg.names) {
        std::thread::sleep(std::time::Duration::from_millis(2));
    }
    std::thread::sleep(std::time::Duration::from_millis(5));
    w(&driver, 4);
    w(&driver, 5);
    ctl::sched_reset();
    driver.shutdown();
    flw::uninstall_virtual();
    res.absorb_panics("C19", "failed open, then the background cleanup");
    res.count("controlled_failed_open_histories", 1);
    if !matches!(parked, ctl::Parked::At(_)) {
        res.inconclusive("the cleanup thread did not take up the request of the first rotation");
        return res;
    }
    if res.verdict == Verdict::Held {
        let mut ids: Vec<u64> = Vec::new();
        let mut names = Vec::new();
        if let Ok(obs) = family::observe(&cfg.names) {
            names = obs.names();
            for f in &obs.family {
                if let Ok(c) = &f.content {
                    for line in String::from_utf8_lossy(c).lines() {
                        if let Some((0, 0, s)) = flw::parse_msg_id(line) {
                            ids.push(s);
                        }
                    }
                }
            }
        }
        // Clean::Logs(0) may remove rotated files as a whole; the records written after the failed
        // rotation belong to the file that is being written and must be there in any case
        let missing: Vec<u64> = [3u64, 4, 5].iter().copied().filter(|i| !ids.contains(i)).collect();
        if !missing.is_empty() {
            res.violate(
                "record-lost",
                format!(
                    "C19/record-lost/failed-open-then-background-cleanup/naming={}/{}",
                    cfg.names.naming.label(),
                    cfg.clean.label()
                ),
                format!(
                    "rotation 2 renamed the current file and could not open the new one (reported: {reported}); the writer went on in the renamed file; the background cleanup of rotation 1, running afterwards, took that file for a rotated one: records {missing:?}, all written without error after the failed rotation, are gone (ids found {ids:?} in {names:?})"
                ),
            );
        } else if !reported {
            res.violate(
                "failure-not-reported",
                "C19/failure-not-reported/failed-open-then-background-cleanup",
                "the failed open during the rotation was not reported",
            );
        }
    }
    res.nontrivial = true;
    res.sample = Some(json!({"config": cfg.to_json()}));
    res
}

// ------------------------------------------------------------------------------------------
// real fault: the name of the rotated file is longer than NAME_MAX (the name of the current file
// still fits), so every rename of the current file really fails inside the system call - behind
// the hook point, where injected faults never get

fn name_too_long_case(ctx: &mut CaseCtx) -> CaseResult {
    let rng = &mut ctx.rng;
    let mut res = CaseResult::new("real-fault|rotated-name-too-long");
    let dir = ctx.dir.join("logs");
    let naming = match rng.below(3) {
        0 => NamingK::Timestamps,
        1 => NamingK::Custom { fmt: "ts%Y-%m-%d_%H-%M-%S".into(), current: Some("CUR".into()) },
        _ => NamingK::Numbers,
    };
    // current: <base>_rCURRENT.log (or _CUR.log); rotated names are 3..18 bytes longer
    let (cur_len, rot_len) = match &naming {
        NamingK::Timestamps => (9, 21),
        NamingK::Custom { .. } => (4, 22),
        _ => (9, 7),
    };
    if rot_len <= cur_len {
        // numbered names are shorter than the current one: use the blocked-directory fault there
        return blocked_target_case(ctx);
    }
    // 255 = NAME_MAX; ".log" = 4
    let base_len = 255 - 4 - cur_len - rng.usize(rot_len - cur_len);
    let names = NameCfg {
        dir: dir.clone(),
        basename: "n".repeat(base_len),
        discr: None,
        start_ts: None,
        suffix: Some("log".into()),
        naming,
    };
    let cfg = FlwCfg {
        names,
        use_ts: false,
        crit: Some(Crit::Size(60)),
        clean: Clean::Never,
        clean_bg: false,
        wmode: if rng.chance(1, 3) { WMode::BufDont(64) } else { WMode::Direct },
        crlf: false,
        append: rng.chance(1, 3),
        symlink: None,
        use_utc: false,
        max_level: log::LevelFilter::Trace,
        fmt: FmtK::Raw,
        l2: rng.chance(1, 2),
    };
    let _ = std::fs::create_dir_all(&dir);
    flw::install_virtual(flw::base_time_ns(rng));
    let _ = flw::take_error_channel();
    let mut driver = match Driver::build(&cfg) {
        Ok(d) => d,
        Err(e) => {
            // a name that does not fit at all is a configuration problem, not our subject
            flw::uninstall_virtual();
            res.inconclusive(format!("the logger cannot be built with this name: {e}"));
            return res;
        }
    };
    let n = 12u64;
    for seq in 0..n {
        driver.write(log::Level::Info, &flw::msg_id(0, 0, seq, 30));
        if seq % 4 == 3 {
            ctl::clock_advance(1_000_000_000);
        }
    }
    let reports = flw::take_error_channel().iter().filter(|l| l.contains("ERRCODE")).count();
    driver.shutdown();
    flw::uninstall_virtual();
    res.absorb_panics("C19", "rotated file name longer than NAME_MAX");
    if res.verdict == Verdict::Held {
        // whatever the logger makes of the failing renames: no record whose own write succeeded
        // may be lost, and the failures are reported
        let mut ids: Vec<u64> = Vec::new();
        if let Ok(rd) = std::fs::read_dir(&dir) {
            let mut files: Vec<_> = rd.flatten().map(|e| e.path()).filter(|p| p.is_file()).collect();
            files.sort();
            for f in files {
                for line in String::from_utf8_lossy(&std::fs::read(&f).unwrap_or_default()).lines() {
                    if let Some((0, 0, s)) = flw::parse_msg_id(line) {
                        ids.push(s);
                    }
                }
            }
        }
        ids.sort_unstable();
        let missing: Vec<u64> = (0..n).filter(|i| !ids.contains(i)).collect();
        let dups = ids.windows(2).any(|w| w[0] == w[1]);
        res.count("real_fault_runs", 1);
        if !missing.is_empty() || dups {
            res.violate(
                "record-lost",
                format!("C19/record-lost/real-fault/rotated-name-too-long/naming={}", cfg.names.naming.label()),
                format!(
                    "renaming the current file fails with ENAMETOOLONG at every rotation (base name of {base_len} bytes): records {missing:?} are missing{} although no write failed; ids found {ids:?}",
                    if dups { " and some are duplicated" } else { "" }
                ),
            );
        } else if reports == 0 {
            res.violate(
                "failure-not-reported",
                "C19/failure-not-reported/real-fault/rotated-name-too-long",
                "every rotation failed (ENAMETOOLONG) but nothing was written to the error channel",
            );
        }
    }
    res.nontrivial = true;
    if ctx.case < 40 || res.verdict != Verdict::Held {
        res.sample = Some(json!({"config": cfg.to_json(), "base_name_bytes": base_len}));
    }
    res
}

// ------------------------------------------------------------------------------------------
// real fault: RLIMIT_FSIZE in a child (write fails with EFBIG)

pub fn child_main(a: &ChildArgs) -> i32 {
    let dir = a.dir.join("logs");
    let _ = std::fs::create_dir_all(&dir);
    let stderr_channel = a.x("errchan") == Some("stderr");
    unsafe {
        libc::signal(libc::SIGXFSZ, libc::SIG_IGN);
        let rl = libc::rlimit {
            rlim_cur: 600,
            rlim_max: 600,
        };
        libc::setrlimit(libc::RLIMIT_FSIZE, &rl);
    }
    let lg = flexi_logger::Logger::with(flexi_logger::LogSpecification::trace())
        .log_to_file(
            flexi_logger::FileSpec::default()
                .directory(&dir)
                .basename("lim")
                .suppress_timestamp(),
        )
        .format(flw::fmt_raw)
        .error_channel(if stderr_channel {
            flexi_logger::ErrorChannel::StdErr
        } else {
            flexi_logger::ErrorChannel::DevNull
        });
    let handle = match lg.start() {
        Ok(h) => h,
        Err(_) => return 3,
    };
    // 30 records of ~50 bytes: the limit of 600 bytes is hit after about 12
    for s in 0..30u64 {
        log::info!(target: "flmon::c19", "{}", flw::msg_id(0, 0, s, 40));
        println!("returned {s}");
    }
    handle.shutdown();
    0
}

fn rlimit_case(ctx: &mut CaseCtx) -> CaseResult {
    let stderr_channel = ctx.rng.chance(1, 2);
    let mut res = CaseResult::new(format!(
        "real-fault|RLIMIT_FSIZE|errchan-{}",
        if stderr_channel { "stderr" } else { "devnull" }
    ));
    let out = match child::spawn_piped(&child::Spawn {
        ctx,
        role: "rlimit",
        extra: vec![(
            "errchan".into(),
            if stderr_channel { "stderr" } else { "devnull" }.into(),
        )],
        env: vec![],
        timeout: std::time::Duration::from_secs(20),
        tag: "rlimit",
        cwd: None,
        kill_after: None,
    }) {
        Ok(o) => o,
        Err(e) => {
            res.inconclusive(format!("cannot spawn: {e}"));
            return res;
        }
    };
    if !out.clean_exit() {
        res.violate(
            "child-died",
            "C19/child-died/real-fault/RLIMIT_FSIZE",
            format!("{}; stderr: {}", out.describe(), String::from_utf8_lossy(&out.stderr[..out.stderr.len().min(300)])),
        );
        return res;
    }
    let returned = String::from_utf8_lossy(&out.stdout).lines().filter(|l| l.starts_with("returned ")).count();
    if returned != 30 {
        res.violate(
            "log-call-did-not-return",
            "C19/log-call-did-not-return/real-fault/RLIMIT_FSIZE",
            format!("{returned} of 30 log calls returned"),
        );
    }
    let content = std::fs::read(ctx.dir.join("logs").join("lim.log")).unwrap_or_default();
    // the records before the limit are intact and in order; nothing after a failed write
    let mut ids = Vec::new();
    for line in String::from_utf8_lossy(&content).split('\n') {
        if line.is_empty() {
            continue;
        }
        if let Some((0, 0, s)) = flw::parse_msg_id(line) {
            ids.push(s);
        }
    }
    let contiguous = ids.iter().enumerate().all(|(i, s)| *s == i as u64);
    if !contiguous || ids.len() < 8 {
        res.violate(
            "record-lost",
            "C19/record-lost/real-fault/RLIMIT_FSIZE",
            format!("records in the file: {ids:?} (file size {})", content.len()),
        );
    }
    if stderr_channel {
        let reports = String::from_utf8_lossy(&out.stderr).lines().filter(|l| l.contains("ERRCODE::Write")).count();
        let failed = 30usize.saturating_sub(ids.len());
        res.count("efbig_write_failures", failed as u64);
        if failed > 0 && reports == 0 {
            res.violate(
                "failure-not-reported",
                "C19/failure-not-reported/real-fault/RLIMIT_FSIZE",
                format!("{failed} writes failed with EFBIG, no ERRCODE::Write line on stderr"),
            );
        }
    }
    res.count("real_fault_runs", 1);
    res.nontrivial = true;
    res
}
