//! C16 — log files are named as documented; path-derived specs, listing and symlink agree.
//! Oracle: documented name composition (family.rs) and selector semantics evaluated against the
//! directory after every operation, re-queried after the clock has advanced; read_link of the
//! symlink vs. the file that received the latest record; FileSpec::try_from round trip.

use crate::ctl;
use crate::family::{self, Kind, NamingK};
use crate::flw::{self, AgeK, Clean, Crit, Driver, FlwCfg, FmtK, WMode};
use crate::util::{CaseCtx, CaseResult, Verdict};
use flexi_logger::writers::{FileLogWriter, LogWriter};
use flexi_logger::{DeferredNow, FileSpec, LogfileSelector};
use serde_json::json;
use std::collections::BTreeSet;
use std::path::{Path, PathBuf};

const S: i64 = 1_000_000_000;

pub fn run_case(ctx: &mut CaseCtx) -> CaseResult {
    // zones with daylight-saving time: the listing in the repeated hour / with a file from the
    // skipped hour (child process; the scenario of C06's DST children)
    if ctx.case % 32 == 22 {
        return crate::p_c06::dst_case_for(ctx, "C16");
    }
    if ctx.case % 4 == 1 {
        return try_from_case(ctx);
    }
    let rng = &mut ctx.rng;
    // equivalent builder call sequences (see flw::set_build_variant)
    flw::set_build_variant(rng.below(8) as u8);
    let rotation = !rng.chance(1, 6);
    let naming = if rotation {
        flw::gen_naming(rng, true)
    } else {
        NamingK::NoRotation
    };
    let logdir = ctx.dir.join("logs");
    let (mut names, mut use_ts) = flw::gen_name_parts(rng, &logdir, naming, true);
    if ctx.case % 4 == 2 {
        use_ts = true;
    }
    if !rotation && names.fixed().is_empty() && !use_ts {
        names.basename = "solo".into();
    }
    let t0 = flw::base_time_ns(rng);
    if use_ts {
        names.start_ts = Some(ctl::local_from_ns(t0).format(flw::START_TS_FMT).to_string());
    }
    let link = if rng.chance(1, 2) {
        Some(ctx.dir.join("link_to_current"))
    } else {
        None
    };
    let clean = if rotation {
        match rng.below(6) {
            0 => Clean::Logs(rng.usize(4)),
            1 => Clean::Gz(rng.usize(4)),
            2 => Clean::Both(rng.usize(3), rng.usize(3)),
            _ => Clean::Never,
        }
    } else {
        Clean::Never
    };
    let cfg = FlwCfg {
        names,
        use_ts,
        crit: if rotation {
            Some(match rng.below(3) {
                0 => Crit::Age(AgeK::Second),
                _ => Crit::Size(*rng.pick(&[0u64, 30, 150])),
            })
        } else {
            None
        },
        clean,
        clean_bg: false,
        wmode: WMode::Direct,
        crlf: false,
        append: rng.chance(1, 2),
        symlink: link.clone(),
        use_utc: false,
        max_level: log::LevelFilter::Trace,
        fmt: FmtK::Raw,
        l2: rng.chance(1, 3),
    };
    let mut res = CaseResult::new(format!(
        "{}|{}|{}|{}|{}",
        if cfg.l2 { "L2" } else { "L1" },
        cfg.names.naming.label(),
        cfg.name_mask(),
        cfg.clean.label(),
        if link.is_some() { "symlink" } else { "-" },
    ));
    flw::install_virtual(t0);
    // the configured link may exist already when the logger starts: left behind by an earlier
    // run (its target purged meanwhile: dangling), or pointing somewhere else
    let mut link_before = "-";
    if let Some(l) = &link {
        match ctx.case % 4 {
            0 => {
                let _ = std::os::unix::fs::symlink(cfg.names.dir.join("gone_2001-01-01.log"), l);
                link_before = "dangling";
            }
            1 => {
                let other = ctx.dir.join("something_else.txt");
                let _ = std::fs::write(&other, b"not a log file\n");
                let _ = std::os::unix::fs::symlink(&other, l);
                link_before = "elsewhere";
            }
            _ => {}
        }
    }
    if link_before != "-" {
        res.count(&format!("cases_with_{link_before}_link_at_start"), 1);
    }
    let mut driver = match Driver::build(&cfg) {
        Ok(d) => d,
        Err(e) => {
            res.violate("build-failed", "C16/build-failed", e);
            flw::uninstall_virtual();
            return res;
        }
    };
    let facts = format!(
        "naming={}/mask={}",
        cfg.names.naming.label(),
        cfg.name_mask()
    );
    let custom_current = match &cfg.names.naming {
        NamingK::Custom {
            current: Some(c), ..
        } => Some(c.clone()),
        _ => None,
    };
    let nops = rng.range(4, if ctx.thorough { 60 } else { 30 }) as usize;
    let mut seq = 0u64;
    let mut written = false;
    let mut advanced = false;
    let mut listing_checks = 0u64;
    let mut symlink_checks = 0u64;
    let mut script: Vec<String> = Vec::new();
    'ops: for i in 0..nops {
        // the start-time part is pinned at first use: make build time = first use
        let kind = if i == 0 && cfg.use_ts { 0 } else { rng.below(10) };
        let mut marker: Option<String> = None;
        match kind {
            0..=5 => {
                let m = format!("{}", flw::msg_id(ctx.case, 0, seq, rng.usize(30)));
                seq += 1;
                driver.write(log::Level::Info, &m);
                driver.flush();
                marker = Some(m);
                written = true;
                script.push("write".into());
            }
            6 => {
                let _ = driver.rotate();
                script.push("trigger".into());
            }
            7 => {
                let d = *rng.pick(&[S, 2 * S, 61 * S, 86_400 * S]);
                ctl::clock_advance(d);
                advanced = true;
                script.push(format!("advance {d}"));
            }
            // a new logger instance has a new start time: with the start-time part in the name
            // a restart starts a new family by design, so restarts are left to the other masks
            8 if !cfg.use_ts => {
                driver.shutdown();
                match Driver::build(&cfg) {
                    Ok(d) => driver = d,
                    Err(e) => {
                        res.violate("restart-failed", format!("C16/restart-failed/{facts}"), e);
                        break 'ops;
                    }
                }
                written = false;
                script.push("restart".into());
            }
            _ => {
                driver.flush();
                script.push("flush".into());
            }
        }
        if !written {
            // lazy file creation: queries before the first write of a run are not judged
            continue;
        }
        // ---------------------------------------------------------------- names
        let obs = match family::observe(&cfg.names) {
            Ok(o) => o,
            Err(e) => {
                res.violate(
                    "log-directory-missing",
                    format!("C16/log-directory-missing/{facts}"),
                    e.to_string(),
                );
                break;
            }
        };
        if !obs.foreign.is_empty() || !obs.subdirs.is_empty() {
            res.violate(
                "undocumented-file-name",
                format!(
                    "C16/undocumented-file-name/{facts}{}",
                    if advanced && cfg.use_ts {
                        "/clock-advanced"
                    } else {
                        ""
                    }
                ),
                format!(
                    "op {i}: files not named [basename][_discr][_starttime][_infix][.suffix]: {:?} {:?} (family: {:?})",
                    obs.foreign,
                    obs.subdirs,
                    obs.names()
                ),
            );
            break;
        }
        // nothing outside the configured directory
        let mut outside: Vec<String> = std::fs::read_dir(&ctx.dir)
            .map(|rd| {
                rd.flatten()
                    .map(|e| e.file_name().to_string_lossy().to_string())
                    .collect()
            })
            .unwrap_or_default();
        outside.retain(|n| n != "logs" && n != "link_to_current");
        if !outside.is_empty() {
            res.violate(
                "file-outside-directory",
                format!("C16/file-outside-directory/{facts}"),
                format!("op {i}: {outside:?} next to the configured directory"),
            );
            break;
        }
        // ---------------------------------------------------------------- listing
        let plain: BTreeSet<String> = obs
            .family
            .iter()
            .filter(|f| !f.entry.gz && matches!(f.entry.kind, Kind::Number(_) | Kind::Ts(..)))
            .map(|f| f.entry.name.clone())
            .collect();
        let gz: BTreeSet<String> = obs
            .family
            .iter()
            .filter(|f| f.entry.gz)
            .map(|f| f.entry.name.clone())
            .collect();
        let rcur: BTreeSet<String> = obs
            .family
            .iter()
            .filter(|f| matches!(f.entry.kind, Kind::Current) && f.entry.infix == "rCURRENT")
            .map(|f| f.entry.name.clone())
            .collect();
        let ccur: BTreeSet<String> = obs
            .family
            .iter()
            .filter(|f| {
                matches!(f.entry.kind, Kind::Current)
                    && Some(&f.entry.infix) == custom_current.as_ref()
            })
            .map(|f| f.entry.name.clone())
            .collect();
        let solo: BTreeSet<String> = obs
            .family
            .iter()
            .filter(|f| matches!(f.entry.kind, Kind::Plain))
            .map(|f| f.entry.name.clone())
            .collect();
        // never ask for the same file twice
        let custom_differs = custom_current.as_deref().map_or(false, |c| c != "rCURRENT");
        let cc = custom_current.clone().unwrap_or_else(|| "rCURRENT".into());
        let queries: Vec<(&str, LogfileSelector, BTreeSet<String>)> = if rotation {
            vec![
                ("default", LogfileSelector::default(), plain.clone()),
                (
                    "default+compressed",
                    LogfileSelector::default().with_compressed_files(),
                    plain.union(&gz).cloned().collect(),
                ),
                (
                    "default+r_current",
                    LogfileSelector::default().with_r_current(),
                    plain.union(&rcur).cloned().collect(),
                ),
                (
                    "none+compressed",
                    LogfileSelector::none().with_compressed_files(),
                    gz.clone(),
                ),
                ("none", LogfileSelector::none(), BTreeSet::new()),
                (
                    "none+custom_current",
                    LogfileSelector::none().with_custom_current(&cc),
                    if custom_current.is_some() { ccur.clone() } else { rcur.clone() },
                ),
                (
                    "all",
                    if custom_differs {
                        LogfileSelector::default()
                            .with_compressed_files()
                            .with_r_current()
                            .with_custom_current(&cc)
                    } else {
                        LogfileSelector::default()
                            .with_compressed_files()
                            .with_r_current()
                    },
                    plain
                        .union(&gz)
                        .cloned()
                        .collect::<BTreeSet<_>>()
                        .union(&rcur)
                        .cloned()
                        .collect::<BTreeSet<_>>()
                        .union(&ccur)
                        .cloned()
                        .collect(),
                ),
            ]
        } else {
            // without rotation the one log file; LogfileSelector::none() is not defined there
            vec![("default", LogfileSelector::default(), solo.clone())]
        };
        for (qname, sel, want) in queries {
            listing_checks += 1;
            match driver.existing_log_files(&sel) {
                Err(e) => {
                    res.violate(
                        "listing-error",
                        format!("C16/listing-error/{facts}"),
                        format!("op {i}: existing_log_files({qname}) returned {e}"),
                    );
                    break 'ops;
                }
                Ok(v) => {
                    let mut got: BTreeSet<String> = BTreeSet::new();
                    let mut wrong_dir = None;
                    let mut dup = false;
                    for p in &v {
                        if p.parent() != Some(cfg.names.dir.as_path()) {
                            wrong_dir = Some(p.clone());
                        }
                        if !got.insert(
                            p.file_name()
                                .unwrap_or_default()
                                .to_string_lossy()
                                .to_string(),
                        ) {
                            dup = true;
                        }
                    }
                    if got != want || wrong_dir.is_some() || dup {
                        res.violate(
                            "listing-differs",
                            format!(
                                "C16/listing-differs/{qname}/{facts}{}",
                                if advanced { "/clock-advanced" } else { "" }
                            ),
                            format!(
                                "op {i}: existing_log_files({qname}) = {got:?}{}{} but the directory holds {want:?}",
                                if dup { " (with duplicates)" } else { "" },
                                wrong_dir.map(|p| format!(" (wrong directory {})", p.display())).unwrap_or_default()
                            ),
                        );
                        break 'ops;
                    }
                }
            }
        }
        // ---------------------------------------------------------------- symlink
        if let (Some(l), Some(m)) = (&link, &marker) {
            symlink_checks += 1;
            let holder = obs.family.iter().find(|f| {
                f.content
                    .as_ref()
                    .map(|c| String::from_utf8_lossy(c).contains(m.as_str()))
                    .unwrap_or(false)
            });
            match (std::fs::read_link(l), holder) {
                (Ok(target), Some(h)) => {
                    let want = cfg.names.dir.join(&h.entry.name);
                    let same = std::fs::canonicalize(&target).ok()
                        == std::fs::canonicalize(&want).ok();
                    if !same {
                        res.violate(
                            "symlink-stale",
                            format!("C16/symlink-stale/{facts}"),
                            format!(
                                "op {i}: the symlink points to {} but the latest record went to {}",
                                target.display(),
                                want.display()
                            ),
                        );
                        break;
                    }
                }
                (Err(e), _) => {
                    res.violate(
                        "symlink-missing",
                        format!("C16/symlink-missing/{facts}"),
                        format!("op {i}: read_link failed: {e}"),
                    );
                    break;
                }
                (_, None) => {
                    res.violate(
                        "record-not-found",
                        format!("C16/record-not-found/{facts}"),
                        format!("op {i}: the record just logged is in none of {:?}", obs.names()),
                    );
                    break;
                }
            }
        }
    }
    driver.shutdown();
    res.absorb_panics("C16", "naming/listing history");
    flw::uninstall_virtual();
    res.count("listing_queries", listing_checks);
    res.count("symlink_checks", symlink_checks);
    res.count("records", seq);
    res.nontrivial = listing_checks >= 1;
    res.shape = format!(
        "{}|{}",
        res.shape,
        if advanced { "clock-advanced" } else { "-" }
    );
    if ctx.case < 3 || res.verdict != Verdict::Held {
        res.sample = Some(json!({"config": cfg.to_json(), "script": script}));
    }
    res
}

fn try_from_case(ctx: &mut CaseCtx) -> CaseResult {
    let rng = &mut ctx.rng;
    let rel: &[&str] = &[
        "bare.log",
        "noext",
        ".hidden",
        ".hidden.log",
        "a.b.c.log",
        "trailingdot.",
        "nested/dir/file.log",
        "nested/file",
        "./dot/x.log",
        "dir.with.dots/f.txt",
        "dir.with.dots/noext",
        "caf\u{e9}/\u{e9}t\u{e9}.log",
        "sp ace/f i.log",
        "x_rCURRENT.log",
        "app.log.txt",
        ".hidden.log.txt",
        "v1.2.3/prog-1.2.log",
    ];
    let pick = *rng.pick(rel);
    let absolute = rng.chance(1, 2);
    let mut res = CaseResult::new(format!(
        "try_from|{}|{}",
        if absolute { "absolute" } else { "relative" },
        pick
    ));
    // relative paths are resolved against the process' working directory: use the case dir
    let old_cwd = std::env::current_dir().ok();
    if std::env::set_current_dir(&ctx.dir).is_err() {
        res.inconclusive("cannot change the working directory");
        return res;
    }
    let p: PathBuf = if absolute {
        ctx.dir.join(pick)
    } else {
        PathBuf::from(pick)
    };
    let facts = format!(
        "{}/{}",
        if absolute { "absolute" } else { "relative" },
        if Path::new(pick).parent().map(|x| x.as_os_str().is_empty()).unwrap_or(true) {
            "bare-file-name"
        } else {
            "with-directory"
        }
    );
    let r = std::panic::catch_unwind(|| FileSpec::try_from(p.clone()));
    match r {
        Err(_) => {
            res.absorb_panics("C16", &format!("FileSpec::try_from({})", p.display()));
        }
        Ok(Err(e)) => res.violate(
            "try_from-rejected",
            format!("C16/try_from-rejected/{facts}"),
            format!("{}: {e:?}", p.display()),
        ),
        Ok(Ok(fs)) => {
            res.count("try_from_paths", 1);
            let back = fs.as_pathbuf(None);
            // "denotes exactly that path": the same path up to a leading "./"
            let norm = |x: &Path| -> PathBuf {
                x.components()
                    .skip_while(|c| matches!(c, std::path::Component::CurDir))
                    .collect()
            };
            if norm(&back) != norm(&p) {
                res.violate(
                    "try_from-denotes-other-path",
                    format!("C16/try_from-denotes-other-path/{facts}"),
                    format!("try_from({:?}).as_pathbuf(None) = {:?}", p, back),
                );
            } else {
                // a logger built from it writes there
                match FileLogWriter::builder(fs).format(flw::fmt_raw).try_build() {
                    Err(e) => res.violate(
                        "logger-cannot-be-built",
                        format!("C16/logger-cannot-be-built/{facts}"),
                        format!("FileSpec::try_from({:?}): {e:?}", p),
                    ),
                    Ok(w) => {
                        let marker = flw::msg_id(ctx.case, 0, 0, 12);
                        flw::with_record(log::Level::Info, "t", &marker, |rec| {
                            let _ = w.write(&mut DeferredNow::new(), rec);
                        });
                        let _ = w.flush();
                        drop(w);
                        let content = std::fs::read_to_string(&p).unwrap_or_default();
                        if !content.contains(&marker) {
                            res.violate(
                                "record-not-at-path",
                                format!("C16/record-not-at-path/{facts}"),
                                format!(
                                    "the record is not in {:?}; directory: {:?}",
                                    p,
                                    std::fs::read_dir(&ctx.dir).map(|rd| rd
                                        .flatten()
                                        .map(|e| e.file_name())
                                        .collect::<Vec<_>>())
                                ),
                            );
                        }
                    }
                }
            }
        }
    }
    // the same path with rotation: the listing must show exactly the files the writer created
    if res.verdict == Verdict::Held {
        let p2 = ctx.dir.join("rot").join(pick);
        if let Ok(Ok(fs2)) = std::panic::catch_unwind(|| FileSpec::try_from(p2.clone())) {
            let built = FileLogWriter::builder(fs2)
                .format(flw::fmt_raw)
                .rotate(
                    flexi_logger::Criterion::Size(0),
                    *rng.pick(&[flexi_logger::Naming::Numbers, flexi_logger::Naming::NumbersDirect, flexi_logger::Naming::Timestamps]),
                    flexi_logger::Cleanup::Never,
                )
                .try_build();
            match built {
                Err(e) => res.violate(
                    "logger-cannot-be-built",
                    format!("C16/logger-cannot-be-built/{facts}/with-rotation"),
                    format!("FileSpec::try_from({:?}) + rotation: {e:?}", p2),
                ),
                Ok(w) => {
                    for k in 0..3u64 {
                        let m = flw::msg_id(ctx.case, 1, k, 6);
                        flw::with_record(log::Level::Info, "t", &m, |rec| {
                            let _ = w.write(&mut DeferredNow::new(), rec);
                        });
                    }
                    let _ = w.flush();
                    let listed: std::collections::BTreeSet<String> = w
                        .existing_log_files(&flexi_logger::LogfileSelector::default().with_r_current())
                        .unwrap_or_default()
                        .iter()
                        .filter_map(|x| x.file_name().map(|n| n.to_string_lossy().to_string()))
                        .collect();
                    let parent = p2.parent().map(Path::to_path_buf).unwrap_or_default();
                    let there: std::collections::BTreeSet<String> = std::fs::read_dir(&parent)
                        .map(|rd| {
                            rd.flatten()
                                .filter(|e| e.path().is_file())
                                .map(|e| e.file_name().to_string_lossy().to_string())
                                .collect()
                        })
                        .unwrap_or_default();
                    res.count("try_from_rotation_listings_compared", 1);
                    if listed != there || there.len() < 3 {
                        res.violate(
                            "listing-differs",
                            format!("C16/try_from-with-rotation-listing-differs/{facts}"),
                            format!(
                                "FileSpec::try_from({:?}) with rotation: existing_log_files (incl. current) gives {listed:?}, the directory holds {there:?}",
                                p2
                            ),
                        );
                    }
                    drop(w);
                }
            }
        }
    }
    if let Some(c) = old_cwd {
        let _ = std::env::set_current_dir(c);
    } else {
        let _ = std::env::set_current_dir("/");
    }
    res.absorb_panics("C16", "try_from");
    res.nontrivial = true;
    res.sample = Some(json!({"path": p.to_string_lossy(), "absolute": absolute}));
    res
}
