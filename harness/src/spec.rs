//! Specification machinery shared by C02 / C05 / C12 / C13 / C17: reference matcher, generators,
//! a text-filter sub-language whose truth is computable without a regex engine, target grids and
//! recording writers / line filters.

use crate::rng::Rng;
use flexi_logger::filter::{LogLineFilter, LogLineWriter};
use flexi_logger::writers::LogWriter;
use flexi_logger::{DeferredNow, LogSpecBuilder, LogSpecification};
use log::{Level, LevelFilter};
use std::sync::{Arc, Mutex};

// ------------------------------------------------------------------------------------------
// reference model

#[derive(Clone, Debug, PartialEq, Eq)]
pub enum TextK {
    Contains(String),
    StartsWith(String),
    EndsWith(String),
    Alt(String, String),
}
impl TextK {
    pub fn matches(&self, msg: &str) -> bool {
        match self {
            TextK::Contains(l) => msg.contains(l.as_str()),
            TextK::StartsWith(l) => msg.starts_with(l.as_str()),
            TextK::EndsWith(l) => msg.ends_with(l.as_str()),
            TextK::Alt(a, b) => msg.contains(a.as_str()) || msg.contains(b.as_str()),
        }
    }
    pub fn regex(&self) -> String {
        match self {
            TextK::Contains(l) => regex::escape(l),
            TextK::StartsWith(l) => format!("^{}", regex::escape(l)),
            TextK::EndsWith(l) => format!("{}$", regex::escape(l)),
            TextK::Alt(a, b) => format!("{}|{}", regex::escape(a), regex::escape(b)),
        }
    }
    /// messages that hit and miss
    pub fn messages(&self) -> Vec<String> {
        let (a, b) = match self {
            TextK::Contains(l) | TextK::StartsWith(l) | TextK::EndsWith(l) => (l.clone(), l.clone()),
            TextK::Alt(a, b) => (a.clone(), b.clone()),
        };
        vec![
            format!("{a} tail"),
            format!("head {a}"),
            format!("head {b} tail"),
            a.clone(),
            "nothing relevant".to_string(),
            String::new(),
            a.chars().rev().collect::<String>() + "#",
        ]
    }
}

#[derive(Clone, Debug, PartialEq, Eq, Default)]
pub struct MSpec {
    /// (module name or None for the default, level filter); each name at most once
    pub entries: Vec<(Option<String>, LevelFilter)>,
    pub text: Option<TextK>,
}

impl MSpec {
    /// longest specified module name that is a prefix of the target, else default, else off
    pub fn enabled(&self, level: Level, target: &str) -> bool {
        let mut best: Option<(&str, LevelFilter)> = None;
        for (name, lf) in &self.entries {
            if let Some(n) = name {
                if target.starts_with(n.as_str()) && best.map_or(true, |(b, _)| n.len() > b.len()) {
                    best = Some((n, *lf));
                }
            }
        }
        if let Some((_, lf)) = best {
            return level <= lf;
        }
        for (name, lf) in &self.entries {
            if name.is_none() {
                return level <= *lf;
            }
        }
        false
    }
    pub fn delivers(&self, level: Level, target: &str, msg: &str) -> bool {
        self.enabled(level, target) && self.text.as_ref().map_or(true, |t| t.matches(msg))
    }
    pub fn max_level(&self) -> LevelFilter {
        self.entries
            .iter()
            .map(|e| e.1)
            .max()
            .unwrap_or(LevelFilter::Off)
    }
    pub fn names(&self) -> Vec<String> {
        self.entries.iter().filter_map(|e| e.0.clone()).collect()
    }
    pub fn has_default(&self) -> bool {
        self.entries.iter().any(|e| e.0.is_none())
    }

    /// specification string per the documented BNF
    pub fn to_spec_string(&self, rng: &mut Rng) -> String {
        let mut parts: Vec<String> = Vec::new();
        for (name, lf) in &self.entries {
            let lvl = level_word(*lf, rng);
            match name {
                None => parts.push(lvl),
                Some(n) => {
                    if *lf == LevelFilter::Trace && !is_level_word(n) && rng.chance(1, 3) {
                        // "<path_to_module>" alone means all levels
                        parts.push(n.clone());
                    } else {
                        let eq = *rng.pick(&["=", " = ", "= ", " ="]);
                        parts.push(format!("{n}{eq}{lvl}"));
                    }
                }
            }
        }
        // order is free
        for i in (1..parts.len()).rev() {
            let j = rng.usize(i + 1);
            parts.swap(i, j);
        }
        let sep = *rng.pick(&[",", ", ", " , "]);
        let mut s = parts.join(sep);
        if let Some(t) = &self.text {
            s.push('/');
            s.push_str(&t.regex());
        }
        s
    }

    /// the specfile form (TOML): global_level, global_pattern, [modules]
    pub fn to_toml_text(&self) -> String {
        fn q(s: &str) -> String {
            if s.contains('\'') || s.contains('\n') {
                format!("{:?}", s) // basic string; Debug escaping of these texts is TOML compatible
            } else {
                format!("'{s}'")
            }
        }
        let word = |lf: LevelFilter| format!("{lf}").to_lowercase();
        let mut out = String::new();
        for (name, lf) in &self.entries {
            if name.is_none() {
                out.push_str(&format!("global_level = {}\n", q(&word(*lf))));
            }
        }
        if let Some(t) = &self.text {
            out.push_str(&format!("global_pattern = {}\n", q(&t.regex())));
        }
        out.push_str("[modules]\n");
        for (name, lf) in &self.entries {
            if let Some(n) = name {
                out.push_str(&format!("{} = {}\n", q(n), q(&word(*lf))));
            }
        }
        out
    }

    /// builds the real specification through the builder API (always has a default entry)
    pub fn to_real_via_builder(&self) -> LogSpecification {
        let mut b = LogSpecBuilder::new();
        for (name, lf) in &self.entries {
            match name {
                None => {
                    b.default(*lf);
                }
                Some(n) => {
                    b.module(n, *lf);
                }
            }
        }
        match &self.text {
            None => b.build(),
            Some(t) => b.build_with_textfilter(Some(regex::Regex::new(&t.regex()).unwrap())),
        }
    }
    /// what the builder route means: LogSpecBuilder::new() starts with default = Off
    pub fn with_builder_default(&self) -> MSpec {
        let mut m = self.clone();
        if !m.has_default() {
            m.entries.push((None, LevelFilter::Off));
        }
        m
    }
}

pub fn is_level_word(s: &str) -> bool {
    matches!(
        s.to_lowercase().as_str(),
        "off" | "error" | "warn" | "info" | "debug" | "trace"
    )
}

pub fn level_word(lf: LevelFilter, rng: &mut Rng) -> String {
    let w = match lf {
        LevelFilter::Off => "off",
        LevelFilter::Error => "error",
        LevelFilter::Warn => "warn",
        LevelFilter::Info => "info",
        LevelFilter::Debug => "debug",
        LevelFilter::Trace => "trace",
    };
    match rng.below(6) {
        0 => w.to_uppercase(),
        1 => {
            let mut c = w.chars();
            c.next()
                .map(|f| f.to_uppercase().collect::<String>() + c.as_str())
                .unwrap_or_default()
        }
        _ => w.to_string(),
    }
}

pub const FILTERS: [LevelFilter; 6] = [
    LevelFilter::Off,
    LevelFilter::Error,
    LevelFilter::Warn,
    LevelFilter::Info,
    LevelFilter::Debug,
    LevelFilter::Trace,
];
pub const LEVELS: [Level; 5] = [
    Level::Error,
    Level::Warn,
    Level::Info,
    Level::Debug,
    Level::Trace,
];

const SEGS: &[&str] = &["a", "b", "bc", "abc", "m1", "core", "x_y", "net"];

pub fn gen_name(rng: &mut Rng, existing: &[String], allow_level_words: bool) -> String {
    // prefix chains: extend an existing name sometimes
    if !existing.is_empty() && rng.chance(1, 3) {
        let base = rng.pick(existing).clone();
        return match rng.below(3) {
            0 => format!("{base}::{}", rng.pick(SEGS)),
            1 => format!("{base}{}", rng.pick(&["c", "x", "1"])),
            _ => {
                // a proper prefix of an existing name
                let cut = base.len().saturating_sub(1).max(1);
                base[..cut].to_string()
            }
        };
    }
    if allow_level_words && rng.chance(1, 10) {
        return (*rng.pick(&["info", "debug", "off", "error", "warn", "trace"])).to_string();
    }
    let n = rng.range(1, 3);
    let mut parts = Vec::new();
    for _ in 0..n {
        parts.push(*rng.pick(SEGS));
    }
    parts.join("::")
}

pub fn gen_text(rng: &mut Rng) -> TextK {
    let lits = ["foo", "a.b", "x+y", "(z)", "tick[1]", "é€", "100%", "a|b"];
    match rng.below(4) {
        0 => TextK::Contains((*rng.pick(&lits)).to_string()),
        1 => TextK::StartsWith((*rng.pick(&lits)).to_string()),
        2 => TextK::EndsWith((*rng.pick(&lits)).to_string()),
        _ => TextK::Alt((*rng.pick(&lits)).to_string(), (*rng.pick(&lits[..4])).to_string()),
    }
}

pub fn gen_mspec(rng: &mut Rng, with_text: bool, allow_level_words: bool) -> MSpec {
    let n = rng.below(7) as usize;
    let mut names: Vec<String> = Vec::new();
    let mut entries = Vec::new();
    for _ in 0..n {
        let name = gen_name(rng, &names, allow_level_words);
        if name.is_empty() || names.contains(&name) {
            continue;
        }
        names.push(name.clone());
        entries.push((Some(name), *rng.pick(&FILTERS)));
    }
    if rng.chance(2, 3) {
        entries.push((None, *rng.pick(&FILTERS)));
    }
    MSpec {
        entries,
        text: if with_text && rng.chance(1, 3) {
            Some(gen_text(rng))
        } else {
            None
        },
    }
}

/// targets derived from the names of the given specs: exact, extended, sibling with common
/// prefix, proper prefixes, unrelated, empty
pub fn grid_targets(specs: &[&MSpec]) -> Vec<String> {
    let mut t: Vec<String> = vec![String::new(), "zzz".into(), "zzz::q".into()];
    for s in specs {
        for n in s.names() {
            t.push(n.clone());
            t.push(format!("{n}::x"));
            t.push(format!("{n}x"));
            t.push(format!("{n}::"));
            if let Some(i) = n.rfind("::") {
                t.push(n[..i].to_string());
            }
            if n.len() > 1 {
                let mut cut = n.len() - 1;
                while !n.is_char_boundary(cut) {
                    cut -= 1;
                }
                t.push(n[..cut].to_string());
            }
        }
    }
    t.sort();
    t.dedup();
    t
}

// ------------------------------------------------------------------------------------------
// recording writer / filter

#[derive(Clone, Debug, PartialEq, Eq)]
pub struct Rec {
    pub level: Level,
    pub target: String,
    pub msg: String,
}

#[derive(Clone, Default)]
pub struct Recorder {
    pub recs: Arc<Mutex<Vec<Rec>>>,
}
impl Recorder {
    pub fn take(&self) -> Vec<Rec> {
        std::mem::take(&mut *self.recs.lock().unwrap())
    }
    pub fn len(&self) -> usize {
        self.recs.lock().unwrap().len()
    }
    fn push(&self, record: &log::Record) {
        // format first (the arguments may log recursively), lock afterwards
        let rec = Rec {
            level: record.level(),
            target: record.target().to_string(),
            msg: record.args().to_string(),
        };
        self.recs.lock().unwrap().push(rec);
    }
}

/// a LogWriter that records what it is handed; `ceiling` is reported as max_log_level() and —
/// like the crate's own writers — honoured in write()
pub struct RecWriter {
    pub rec: Recorder,
    pub ceiling: LevelFilter,
    pub honour_ceiling: bool,
}
impl LogWriter for RecWriter {
    fn write(&self, _now: &mut DeferredNow, record: &log::Record) -> std::io::Result<()> {
        if !self.honour_ceiling || record.level() <= self.ceiling {
            self.rec.push(record);
        }
        Ok(())
    }
    fn flush(&self) -> std::io::Result<()> {
        Ok(())
    }
    fn max_log_level(&self) -> LevelFilter {
        self.ceiling
    }
}

/// a LogLineFilter that records what reaches it and passes everything on
pub struct RecFilter {
    pub rec: Recorder,
}
impl LogLineFilter for RecFilter {
    fn write(
        &self,
        now: &mut DeferredNow,
        record: &log::Record,
        w: &dyn LogLineWriter,
    ) -> std::io::Result<()> {
        self.rec.push(record);
        w.write(now, record)
    }
}

pub fn with_rec<R>(
    level: Level,
    target: &str,
    module: Option<&str>,
    msg: &str,
    f: impl FnOnce(&log::Record) -> R,
) -> R {
    f(&log::Record::builder()
        .args(format_args!("{msg}"))
        .level(level)
        .target(target)
        .module_path(module)
        .file(Some("src/spec.rs"))
        .line(Some(7))
        .build())
}

/// compares the real logger with the model over levels x targets x messages; returns
/// (grid points evaluated, first mismatch)
pub struct GridOutcome {
    pub points: u64,
    pub enabled_points: u64,
    pub mismatch: Option<(String, String)>,
}

pub fn check_grid(
    logger: &dyn log::Log,
    sink: &Recorder,
    model: &MSpec,
    targets: &[String],
    msgs: &[String],
) -> GridOutcome {
    let mut out = GridOutcome {
        points: 0,
        enabled_points: 0,
        mismatch: None,
    };
    let max = log::max_level();
    for t in targets {
        for lvl in LEVELS {
            let meta = log::Metadata::builder().level(lvl).target(t).build();
            let en = logger.enabled(&meta);
            let model_en = model.enabled(lvl, t);
            if model_en {
                out.enabled_points += 1;
                if lvl > max {
                    out.mismatch = Some((
                        "max-level-hides-enabled-record".into(),
                        format!(
                            "spec enables {lvl} for target {t:?} but log::max_level() is {max}"
                        ),
                    ));
                    return out;
                }
            }
            for m in msgs {
                out.points += 1;
                let want = model.delivers(lvl, t, m);
                sink.take();
                // the macro gate, exactly as in the log crate
                if lvl <= max {
                    with_rec(lvl, t, Some(t), m, |r| logger.log(r));
                }
                let got = sink.take();
                let delivered = match got.len() {
                    0 => false,
                    1 => got[0].level == lvl && got[0].target == *t && got[0].msg == *m,
                    _ => {
                        out.mismatch = Some((
                            "delivered-more-than-once".into(),
                            format!("{lvl} {t:?} {m:?} was delivered {} times", got.len()),
                        ));
                        return out;
                    }
                };
                if delivered != want {
                    out.mismatch = Some((
                        if want {
                            "enabled-record-not-delivered".into()
                        } else {
                            "disabled-record-delivered".into()
                        },
                        format!(
                            "level {lvl}, target {t:?}, message {m:?}: model says {want}, observed {delivered} (max_level {max})"
                        ),
                    ));
                    return out;
                }
                if delivered && !en {
                    out.mismatch = Some((
                        "enabled()-false-for-written-record".into(),
                        format!("level {lvl}, target {t:?}: written but Log::enabled() answered false"),
                    ));
                    return out;
                }
            }
        }
    }
    out
}
