//! C07, controlled schedules: the background cleanup thread and the logging thread are both parked
//! at their hook points and released one at a time, so that the executed interleaving of
//! (rotation steps of the logging thread) x (list / remove / compress steps of the cleanup thread)
//! *is* the chosen one. Per configuration the choice tree is walked depth-first (stateless: one
//! fresh logger and directory per schedule) until it is exhausted or a cap is reached; beyond the
//! cap seeded random schedules are added. Judged after `shutdown()` with the strict survivor
//! oracle of C07 (Appendix C): limits, newest contiguous tail, gzip round trip, current file spared.
//!
//! Logging thread: parks between the groups of its script (`op`) and inside a rotation right
//! before the current file is renamed (`rename_current`) and before the new file is opened
//! (`open`) - it holds the state mutex there, which the cleanup thread never takes, so the cleanup
//! thread really can run inside these windows. Cleanup thread: `cleanup_act` (request taken up),
//! `cleanup_list` (before the directory is listed), `cleanup_remove` / `gz_create` /
//! `gz_remove_src` (before each effect), `cleanup_done` (work list finished, before the next
//! request is received).

use crate::ctl::{self, Parked};
use crate::flw::{self, Clean, Crit, FlwCfg, FmtK, HOp, Hist, WMode};
use crate::rng::Rng;
use crate::util::{CaseCtx, CaseResult, Verdict, LEVELS};
use serde_json::json;
use std::time::{Duration, Instant};

const CLEANER: &str = "flexi_logger-fs-cleanup";
const LOGGER: &str = "flmon-sched-logger";
const POINTS: &[&str] = &[
    "op",
    "rename_current",
    "open",
    "cleanup_act",
    "cleanup_list",
    "cleanup_remove",
    "gz_create",
    "gz_remove_src",
    "cleanup_done",
];
const S: i64 = 1_000_000_000;
const STEP_TIMEOUT: Duration = Duration::from_secs(15);

struct SchedCfg {
    cfg: FlwCfg,
    t0: i64,
    pre: Vec<HOp>,
    script: Vec<Vec<HOp>>,
}

#[derive(Default)]
struct ExecOut {
    choices: String,
    depth: usize,
    l_steps: u64,
    c_steps: u64,
    /// a cleanup step ran while the logging thread stood inside a rotation
    c_inside_rotation: u64,
    /// a step of the logging thread ran while the cleanup thread stood inside its work list
    l_inside_cleanup: u64,
    cleanup_runs: u64,
    violation: Option<(String, String, String)>,
    inconclusive: Option<String>,
    files_checked: u64,
    gz_round_trips: u64,
    limit_exceeded: bool,
}

fn opens() -> u32 {
    ctl::with_ctl(|c| c.counts.get("open").copied().unwrap_or(0))
}

fn acts_seen() -> usize {
    ctl::sched_log()
        .iter()
        .filter(|(t, p)| t == CLEANER && p == "cleanup_act")
        .count()
}

/// One execution of the configuration under the schedule that `choose` dictates
/// (`choose(depth, n_enabled)` returns the index of the thread to release; the enabled threads are
/// listed logging thread first).
fn exec(sc: &SchedCfg, dir: &std::path::Path, choose: &mut dyn FnMut(usize, usize) -> usize) -> ExecOut {
    let mut out = ExecOut::default();
    let _ = std::fs::remove_dir_all(dir);
    if std::fs::create_dir_all(dir).is_err() {
        out.inconclusive = Some("cannot create the scratch directory".into());
        return out;
    }
    let mut cfg = sc.cfg.clone();
    cfg.names.dir = dir.to_path_buf();
    flw::install_virtual(sc.t0);
    // pre-history: the cleanup thread works freely, the harness only waits for the end of each run
    ctl::sched_control(&[CLEANER], &["cleanup_done"]);
    let finish = |out: ExecOut| {
        ctl::sched_reset();
        flw::uninstall_virtual();
        out
    };
    let mut hist = match Hist::start(cfg.clone()) {
        Ok(h) => h,
        Err(e) => {
            out.violation = Some(("build-failed".into(), "C07/sched/build-failed".into(), e));
            return finish(out);
        }
    };
    hist.model.no_trim = true;
    let mut pre_runs: u32 = 0;
    for op in &sc.pre {
        if let Err(e) = hist.apply(op) {
            out.violation = Some(("op-error".into(), "C07/sched/op-error".into(), format!("pre-history {op:?}: {e}")));
            hist.shutdown();
            return finish(out);
        }
        // every `open` after the first one belongs to a rotation, which ends with one request
        while opens() > 0 && pre_runs < opens() - 1 {
            match ctl::sched_wait(CLEANER, STEP_TIMEOUT) {
                Parked::At(_) => {
                    if !ctl::sched_release_sync(CLEANER, STEP_TIMEOUT) {
                        out.inconclusive = Some("pre-history: the cleanup thread did not take its release".into());
                        hist.shutdown();
                        return finish(out);
                    }
                    pre_runs += 1;
                }
                _ => {
                    out.inconclusive = Some("pre-history: the cleanup thread did not finish a run".into());
                    hist.shutdown();
                    return finish(out);
                }
            }
        }
    }
    let opens_before = opens().max(1);
    // controlled part
    ctl::sched_set_points(POINTS);
    ctl::sched_add_thread(LOGGER);
    let script = sc.script.clone();
    let lthread = std::thread::Builder::new()
        .name(LOGGER.to_string())
        .spawn(move || {
            let mut err = None;
            'outer: for group in &script {
                ctl::sched_park("op");
                for op in group {
                    if let Err(e) = hist.apply(op) {
                        err = Some(format!("{op:?}: {e}"));
                        break 'outer;
                    }
                }
            }
            ctl::sched_finished(LOGGER);
            (hist, err)
        })
        .expect("cannot spawn the logging thread");
    let mut l_state = ctl::sched_wait(LOGGER, STEP_TIMEOUT);
    let mut depth = 0usize;
    loop {
        if l_state == Parked::Timeout {
            out.inconclusive = Some("the logging thread neither parked nor finished".into());
            break;
        }
        // requests sent so far: one per completed rotation
        let standing_at_open = matches!(&l_state, Parked::At(p) if p == "open");
        let sent = (opens() - opens_before) as usize - usize::from(standing_at_open);
        // (the number of requests taken up is read *before* the look at the thread: if it parks in
        // between, the stale number makes us wait for a park that has already happened)
        let taken = acts_seen();
        let mut c_state = ctl::sched_peek(CLEANER);
        if !matches!(c_state, Parked::At(_)) && sent > taken {
            c_state = ctl::sched_wait(CLEANER, STEP_TIMEOUT);
            if !matches!(c_state, Parked::At(_)) {
                out.inconclusive = Some("the cleanup thread did not take up a pending request".into());
                break;
            }
        }
        let l_enabled = matches!(l_state, Parked::At(_));
        let c_enabled = matches!(c_state, Parked::At(_));
        let n = usize::from(l_enabled) + usize::from(c_enabled);
        if n == 0 {
            break; // script finished, cleanup thread idle
        }
        let pick = choose(depth, n).min(n - 1);
        depth += 1;
        let run_l = l_enabled && pick == 0;
        if run_l {
            out.choices.push('L');
            out.l_steps += 1;
            if matches!(&c_state, Parked::At(p) if p != "cleanup_act" && p != "cleanup_done") {
                out.l_inside_cleanup += 1;
            }
            if !ctl::sched_release_sync(LOGGER, STEP_TIMEOUT) {
                out.inconclusive = Some("the logging thread did not take its release".into());
                break;
            }
            l_state = ctl::sched_wait(LOGGER, STEP_TIMEOUT);
        } else {
            let at = match &c_state {
                Parked::At(p) => p.clone(),
                _ => String::new(),
            };
            out.choices.push(match at.as_str() {
                "cleanup_act" => 'a',
                "cleanup_list" => 'l',
                "cleanup_remove" => 'r',
                "gz_create" => 'z',
                "gz_remove_src" => 'x',
                "cleanup_done" => 'd',
                _ => '?',
            });
            out.c_steps += 1;
            if at == "cleanup_act" {
                out.cleanup_runs += 1;
            }
            if matches!(&l_state, Parked::At(p) if p == "rename_current" || p == "open") {
                out.c_inside_rotation += 1;
            }
            if !ctl::sched_release_sync(CLEANER, STEP_TIMEOUT) {
                out.inconclusive = Some("the cleanup thread did not take its release".into());
                break;
            }
            if at != "cleanup_done" {
                // inside a run there is always a next point (at the latest `cleanup_done`)
                if !matches!(ctl::sched_wait(CLEANER, STEP_TIMEOUT), Parked::At(_)) {
                    out.inconclusive = Some(format!("the cleanup thread did not reach its next point after {at}"));
                    break;
                }
            }
        }
    }
    out.depth = depth;
    // let everybody go, then stop the logger: shutdown() joins the cleanup thread
    ctl::sched_reset();
    let (mut hist, err) = match lthread.join() {
        Ok(x) => x,
        Err(_) => {
            out.inconclusive.get_or_insert("the logging thread panicked".into());
            flw::uninstall_virtual();
            return out;
        }
    };
    hist.shutdown();
    let facts = format!(
        "naming={}/cleanup={}/{}",
        cfg.names.naming.label(),
        cfg.clean.label(),
        cfg.wmode.label()
    );
    if let Some(e) = err {
        out.violation = Some(("op-error".into(), format!("C07/sched/op-error/{facts}"), e));
    } else if out.inconclusive.is_none() {
        match hist.observe() {
            Err(e) => out.inconclusive = Some(format!("cannot read the directory: {e}")),
            Ok(obs) => {
                out.files_checked = obs.family.len() as u64;
                out.gz_round_trips = obs.family.iter().filter(|f| f.entry.gz).count() as u64;
                let (k, m) = cfg.clean.limits().unwrap_or((0, 0));
                out.limit_exceeded = hist.model.rotated.len() > k + m;
                if !obs.foreign.is_empty() {
                    out.violation = Some((
                        "foreign-file-created".into(),
                        format!("C07/sched/foreign-file-created/{facts}"),
                        format!("{:?} (family {:?})", obs.foreign, obs.names()),
                    ));
                } else if let Err((kind, detail)) = flw::survivor_check(&hist.cfg, &hist.model, &obs, true) {
                    out.violation = Some((kind.clone(), format!("C07/sched/{kind}/{facts}"), detail));
                }
            }
        }
    }
    flw::uninstall_virtual();
    out
}

fn gen_cfg(rng: &mut Rng, dir: &std::path::Path, thorough: bool) -> SchedCfg {
    let naming = flw::gen_naming(rng, true);
    let (mut names, _) = flw::gen_name_parts(rng, dir, naming, false);
    names.suffix = match rng.below(5) {
        0 => None,
        1 => Some("txt".into()),
        _ => Some("log".into()),
    };
    let clean = match rng.below(3) {
        0 => Clean::Logs(rng.usize(3)),
        1 => Clean::Gz(rng.usize(3)),
        _ => Clean::Both(rng.usize(3), rng.usize(3)),
    };
    let wmode = if rng.chance(1, 2) {
        WMode::BufDont(*rng.pick(&[64usize, 8192]))
    } else {
        WMode::Direct
    };
    let small = rng.chance(1, 3);
    let crit = if small { Crit::Size(*rng.pick(&[0u64, 30])) } else { Crit::Size(1_000_000) };
    let cfg = FlwCfg {
        names,
        use_ts: false,
        crit: Some(crit),
        clean,
        clean_bg: true,
        wmode,
        crlf: false,
        append: rng.chance(1, 2),
        symlink: None,
        use_utc: false,
        max_level: log::LevelFilter::Trace,
        fmt: FmtK::Raw,
        l2: rng.chance(1, 4),
    };
    let w = |rng: &mut Rng| HOp::Write(*rng.pick(&LEVELS), 5 + rng.usize(30));
    let adv = |rng: &mut Rng| HOp::Advance(*rng.pick(&[0, 0, S, 61 * S]));
    // pre-history: 0-4 completed rotations, so that the limits bite in the controlled part
    let mut pre = vec![w(rng)];
    for _ in 0..rng.below(5) {
        pre.push(adv(rng));
        pre.push(HOp::Trigger);
        pre.push(w(rng));
    }
    // controlled part: groups of operations; one park of the logging thread in front of each
    // (a third of the configurations of the quick tier has room for three rotations as well: the
    // cleanup thread can then be two requests behind when the third rotation lands)
    let deep = thorough || rng.chance(1, 3);
    let groups = if deep { rng.range(2, 5) } else { rng.range(2, 4) } as usize;
    let max_rotations = if deep { 3 } else { 2 };
    let mut script = Vec::new();
    let mut rotations = 0;
    for g in 0..groups {
        let mut group = Vec::new();
        let want_rotation = rotations < max_rotations && (g == 0 || rng.chance(2, 3));
        if want_rotation {
            group.push(adv(rng));
            if small {
                // the size criterion rotates in front of this write
                group.push(HOp::Write(*rng.pick(&LEVELS), 40));
                group.push(w(rng));
            } else {
                if rng.chance(1, 2) {
                    group.push(w(rng)); // leaves an unflushed tail in the buffered modes
                }
                group.push(HOp::Trigger);
                if rng.chance(1, 2) {
                    group.push(w(rng));
                }
            }
            rotations += 1;
        } else {
            group.push(w(rng));
        }
        script.push(group);
    }
    SchedCfg { cfg, t0: flw::base_time_ns(rng), pre, script }
}

pub fn run_case(ctx: &mut CaseCtx) -> CaseResult {
    let sc = gen_cfg(&mut ctx.rng, &ctx.dir, ctx.thorough);
    let cfg = &sc.cfg;
    let shape = format!(
        "sched|{}|{}|{}|{}|{}",
        if cfg.l2 { "L2" } else { "L1" },
        cfg.names.naming.label(),
        cfg.clean.label(),
        cfg.wmode.label(),
        cfg.crit.as_ref().map(Crit::label).unwrap_or_default()
    );
    let mut res = CaseResult::new(shape.clone());
    let (cap, extra, box_s) = if ctx.thorough && ctx.shard >= 8 { (4000usize, 600usize, 15.0) } else { (120usize, 130usize, 0.7) };
    let started = Instant::now();
    let mut executed = 0usize;
    let mut exhausted = false;
    let mut nondet = false;
    let mut agg = ExecOut::default();
    let mut max_depth = 0usize;
    let mut first_violation: Option<String> = None;
    let mut absorb = |o: &ExecOut, res: &mut CaseResult, agg: &mut ExecOut, first: &mut Option<String>| {
        agg.l_steps += o.l_steps;
        agg.c_steps += o.c_steps;
        agg.c_inside_rotation += o.c_inside_rotation;
        agg.l_inside_cleanup += o.l_inside_cleanup;
        agg.cleanup_runs += o.cleanup_runs;
        agg.files_checked += o.files_checked;
        agg.gz_round_trips += o.gz_round_trips;
        agg.limit_exceeded |= o.limit_exceeded;
        if let Some((kind, sig, detail)) = &o.violation {
            if first.is_none() {
                *first = Some(o.choices.clone());
                res.violate(kind, sig.clone(), format!("schedule {} (L = logging thread; a l r z x d = cleanup thread at act/list/remove/gz_create/gz_remove_src/done): {detail}", o.choices));
            }
        }
        if let Some(w) = &o.inconclusive {
            res.count("schedules_unclear", 1);
            if res.verdict == Verdict::Held && first.is_none() {
                res.sets.entry("unclear_reasons".to_string()).or_insert_with(|| json!([]));
                res.add_to_set("unclear_reasons", w.clone());
            }
        }
    };
    // depth-first walk of the choice tree
    let mut stack: Vec<(usize, usize)> = Vec::new();
    let mut n_exec_dir = 0u64;
    loop {
        let d = ctx.dir.join(format!("s{n_exec_dir}"));
        n_exec_dir += 1;
        let mut local_nondet = false;
        let o = {
            let stack_ref = &mut stack;
            exec(&sc, &d, &mut |depth, n| {
                if depth < stack_ref.len() {
                    if stack_ref[depth].1 != n {
                        if std::env::var("FLMON_DEBUG").is_ok() {
                            eprintln!("choice tree varies at depth {depth}: {} -> {n}; stack {:?}", stack_ref[depth].1, stack_ref);
                        }
                        local_nondet = true;
                        stack_ref[depth].1 = n;
                    }
                    stack_ref[depth].0.min(n - 1)
                } else {
                    stack_ref.push((0, n));
                    0
                }
            })
        };
        let _ = std::fs::remove_dir_all(&d);
        executed += 1;
        if std::env::var("FLMON_DEBUG").is_ok() {
            eprintln!("{}", o.choices);
        }
        max_depth = max_depth.max(o.depth);
        nondet |= local_nondet;
        absorb(&o, &mut res, &mut agg, &mut first_violation);
        res.absorb_panics("C07", "controlled schedule");
        if res.verdict == Verdict::Violated {
            break;
        }
        stack.truncate(o.depth);
        while let Some(&(c, n)) = stack.last() {
            if c + 1 < n {
                stack.last_mut().unwrap().0 += 1;
                break;
            }
            stack.pop();
        }
        if stack.is_empty() {
            exhausted = true;
            break;
        }
        if executed >= cap || started.elapsed().as_secs_f64() > box_s {
            break;
        }
    }
    // beyond the cap: seeded random schedules
    let mut random_done = 0usize;
    if !exhausted && res.verdict != Verdict::Violated {
        let mut r = ctx.rng.fork();
        while random_done < extra && started.elapsed().as_secs_f64() < box_s * 1.5 {
            let d = ctx.dir.join(format!("s{n_exec_dir}"));
            n_exec_dir += 1;
            // few context switches (in the spirit of bounded preemption): the threads take turns in
            // phases of random length - "the cleanup thread falls behind, works a little, another
            // rotation lands, it goes on" is a handful of phases, but a needle for uniform choices
            let mut run_l = r.chance(2, 3);
            let mut left = 1 + r.usize(if run_l { 10 } else { 6 });
            let o = exec(&sc, &d, &mut |_, n| {
                if left == 0 {
                    run_l = !run_l;
                    left = 1 + r.usize(if run_l { 10 } else { 6 });
                }
                left -= 1;
                if run_l {
                    0
                } else {
                    n - 1
                }
            });
            let _ = std::fs::remove_dir_all(&d);
            random_done += 1;
            max_depth = max_depth.max(o.depth);
            absorb(&o, &mut res, &mut agg, &mut first_violation);
            res.absorb_panics("C07", "controlled schedule");
            if res.verdict == Verdict::Violated {
                break;
            }
        }
    }
    res.count("sched_configurations", 1);
    res.count("sched_executions", (executed + random_done) as u64);
    res.count("sched_executions_dfs", executed as u64);
    res.count("sched_executions_random", random_done as u64);
    if exhausted {
        res.count("sched_configurations_exhausted", 1);
    }
    if nondet {
        res.count("sched_configurations_with_varying_choice_tree", 1);
    }
    res.count("sched_steps_logging_thread", agg.l_steps);
    res.count("sched_steps_cleanup_thread", agg.c_steps);
    res.count("sched_cleanup_steps_inside_a_rotation", agg.c_inside_rotation);
    res.count("sched_logging_steps_inside_a_cleanup_run", agg.l_inside_cleanup);
    res.count("sched_cleanup_runs", agg.cleanup_runs);
    res.count("files_checked", agg.files_checked);
    res.count("gz_round_trips", agg.gz_round_trips);
    res.count("comparisons", (executed + random_done) as u64);
    let unclear = res.counters.get("schedules_unclear").and_then(serde_json::Value::as_u64).unwrap_or(0);
    if res.verdict == Verdict::Held && unclear as usize * 2 > executed + random_done {
        res.inconclusive("most schedules of this configuration could not be driven to their end");
    }
    res.nontrivial = executed + random_done >= 2 && agg.c_inside_rotation + agg.l_inside_cleanup > 0;
    res.shape = format!("{shape}|{}", if exhausted { "exhausted" } else { "capped" });
    if ctx.case < 16 || res.verdict != Verdict::Held {
        res.sample = Some(json!({
            "config": cfg.to_json(),
            "pre_history": sc.pre.iter().map(|o| format!("{o:?}")).collect::<Vec<_>>(),
            "controlled_script": sc.script.iter().map(|g| g.iter().map(|o| format!("{o:?}")).collect::<Vec<_>>()).collect::<Vec<_>>(),
            "schedules_executed": executed + random_done,
            "choice_tree_exhausted": exhausted,
            "deepest_schedule": max_depth,
            "violating_schedule": first_violation,
        }));
    }
    res
}
