//! C19, failures of the system calls themselves: a child runs a scripted Direct-mode history under
//! `strace`, which makes the n-th `write` / `openat` / `rename` / `unlink` that names the log
//! directory fail with a real errno (`-e inject=<call>:error=<errno>:when=<n>[..<m>]`). Unlike the
//! hook points, which return the error *instead of* the call, the failure comes out of the call, so
//! whatever the crate does behind it runs as well; and the list of calls is taken from a traced
//! run of the history, not from the crate's hook placement.
//!
//! The same strace log is the event record of the oracle: the child writes `call <s>` / `ack <s>`
//! (and `trig <i>` / `trig-done <i>`) to an ack file around every operation, so every injected
//! failure is attributed to the operation in whose window it lies.
//!
//! Judged (Appendix E): the child ends normally and every log call returned; ids in the files are
//! in order and exactly once; a record may be missing only if a `write` to a log file failed in its
//! own window, or if the `openat` that creates the very first log file failed in its window (the
//! writer could not be initialised; all earlier records are missing as well), or - with a cleanup
//! limit - if it is older than every record present; a failed `write`, `rename` or creating
//! `openat` leaves at least one line in the error-channel file; after the failure every later
//! explicit rotation separates the records around it into different files.

use crate::child::{self, AckFile, ChildArgs};
use crate::ctl;
use crate::family::{self, NameCfg, NamingK};
use crate::flw::{self, Clean, Crit, Driver, FlwCfg, FmtK, WMode};
use crate::rng::Rng;
use crate::util::{CaseCtx, CaseResult};
use serde_json::json;
use std::path::Path;
use std::time::Duration;

#[derive(Clone, Debug)]
enum Op {
    Write(usize),
    Trigger,
    Tick,
    /// orderly stop and a new logger on the same directory (rotation namings only; the records
    /// of the first run must survive whatever fails while the second one starts)
    Restart(bool),
}

struct Scenario {
    cfg: FlwCfg,
    ops: Vec<Op>,
    t0: i64,
}

fn gen(rng: &mut Rng, dir: &Path, thorough: bool) -> Scenario {
    let naming = match rng.below(8) {
        0 => NamingK::NoRotation,
        // (the plain number naming is rare in the general generator)
        1 | 2 => NamingK::Numbers,
        _ => flw::gen_naming(rng, true),
    };
    let rotation = naming != NamingK::NoRotation;
    let names = NameCfg {
        dir: dir.join("logs"),
        basename: (*rng.pick(&["app", "x"])).to_string(),
        discr: if rng.chance(1, 4) { Some("D".into()) } else { None },
        start_ts: None,
        suffix: match rng.below(4) {
            0 => None,
            1 => Some("txt".into()),
            _ => Some("log".into()),
        },
        naming,
    };
    let cfg = FlwCfg {
        names,
        use_ts: false,
        crit: if rotation { Some(Crit::Size(*rng.pick(&[60u64, 150, 1_000_000]))) } else { None },
        clean: if rotation {
            match rng.below(6) {
                0 => Clean::Logs(2),
                1 => Clean::Gz(2),
                2 => Clean::Both(1, 1),
                _ => Clean::Never,
            }
        } else {
            Clean::Never
        },
        clean_bg: false,
        wmode: WMode::Direct,
        crlf: false,
        append: rng.chance(1, 2),
        symlink: None,
        use_utc: false,
        max_level: log::LevelFilter::Trace,
        fmt: FmtK::Raw,
        l2: rng.chance(1, 3),
    };
    let n = rng.range(8, if thorough { 28 } else { 18 }) as usize;
    let mut ops = vec![Op::Write(10)];
    for _ in 0..n {
        ops.push(match rng.below(10) {
            0 | 1 if rotation => Op::Trigger,
            2 => Op::Tick,
            3 if rotation && rng.chance(1, 2) => Op::Restart(rng.chance(1, 2)),
            _ => Op::Write(rng.usize(50)),
        });
    }
    // most rotating histories contain a restart: the set-up of a logger on a directory with files
    // is where a failing call has the most to destroy
    if rotation && !ops.iter().any(|o| matches!(o, Op::Restart(_))) && rng.chance(2, 3) {
        let at = 2 + rng.usize(ops.len() - 2);
        ops.insert(at, Op::Restart(rng.chance(1, 2)));
    }
    ops.push(Op::Write(7));
    Scenario { cfg, ops, t0: flw::base_time_ns(rng) }
}

pub fn child_main(a: &ChildArgs) -> i32 {
    let mut ctx = child::ctx_of(a);
    let sc = gen(&mut ctx.rng, &a.dir, ctx.thorough);
    let errchan = a.dir.join("errchan_sys.txt");
    let _ = std::fs::remove_file(&errchan);
    let _ = flexi_logger::Logger::with(flexi_logger::LogSpecification::off())
        .do_not_log()
        .error_channel(flexi_logger::ErrorChannel::File(errchan.clone()))
        .build();
    flw::install_virtual(sc.t0);
    let Ok(mut acks) = AckFile::create(&a.dir.join("acks_sys.txt")) else {
        return 5;
    };
    acks.ack("build");
    let mut driver = match Driver::build(&sc.cfg) {
        Ok(d) => d,
        Err(e) => {
            eprintln!("FLMON-CHILD build failed: {e}");
            return 4;
        }
    };
    acks.ack("build-done");
    let mut seq = 0u64;
    let mut trig = 0u64;
    for op in &sc.ops {
        match op {
            Op::Write(len) => {
                acks.ack(&format!("call {seq}"));
                if driver.write_result(log::Level::Info, &flw::msg_id(0, 0, seq, *len)).is_err() {
                    acks.ack(&format!("err {seq}"));
                }
                acks.ack(&format!("ack {seq}"));
                seq += 1;
            }
            Op::Trigger => {
                acks.ack(&format!("trig {trig}"));
                let _ = driver.rotate();
                acks.ack(&format!("trig-done {trig}"));
                trig += 1;
            }
            Op::Tick => ctl::clock_advance(1_000_000_000),
            Op::Restart(append) => {
                acks.ack("restart");
                driver.shutdown();
                let mut cfg = sc.cfg.clone();
                cfg.append = *append;
                driver = match Driver::build(&cfg) {
                    Ok(d) => d,
                    Err(e) => {
                        eprintln!("FLMON-CHILD build failed: {e}");
                        return 4;
                    }
                };
                acks.ack("restart-done");
            }
        }
    }
    acks.ack("shutdown");
    driver.shutdown();
    // an L2 logger points the process-global error channel at the harness' own file: merge it
    let more = flw::take_error_channel();
    if !more.is_empty() {
        use std::io::Write;
        if let Ok(mut f) = std::fs::OpenOptions::new().create(true).append(true).open(&errchan) {
            for l in more {
                let _ = writeln!(f, "{l}");
            }
        }
    }
    0
}

#[derive(Clone, Debug, PartialEq, Eq, Hash)]
enum Win {
    Build,
    Record(u64),
    Trigger(u64),
    Shutdown,
    Between,
}

#[derive(Clone, Debug)]
struct Call {
    name: String,
    /// per-thread invocation number of this system call, as strace counts it
    n: u32,
    class: &'static str,
    win: Win,
    injected: bool,
}

const CALLS: &[&str] = &["write", "openat", "rename", "unlink"];

/// the system calls of the traced run that name the log directory, each with the window of the
/// operation it belongs to
fn parse_trace(text: &str, logs: &str, ack_file: &str) -> Vec<Call> {
    let mut counters: std::collections::HashMap<(String, String), u32> = std::collections::HashMap::new();
    let mut win = Win::Between;
    let mut out = Vec::new();
    for line in text.lines() {
        let mut it = line.splitn(2, ' ');
        let (Some(pid), Some(rest)) = (it.next(), it.next()) else { continue };
        let rest = rest.trim_start();
        if rest.starts_with("<...") || rest.starts_with("---") || rest.starts_with("+++") {
            continue;
        }
        let Some(paren) = rest.find('(') else { continue };
        let name = &rest[..paren];
        if !CALLS.contains(&name) {
            continue;
        }
        let c = counters.entry((pid.to_string(), name.to_string())).or_insert(0);
        *c += 1;
        if name == "write" && rest.contains(ack_file) {
            // the ack file tells which operation is under way
            let data = rest.split('"').nth(1).unwrap_or("");
            let data = data.trim_end_matches("\\n");
            let num = |p: &str| data.strip_prefix(p).and_then(|v| v.trim().parse::<u64>().ok());
            if data == "build" || data == "restart" {
                win = Win::Build;
            } else if data == "shutdown" {
                win = Win::Shutdown;
            } else if let Some(s) = num("call ") {
                win = Win::Record(s);
            } else if let Some(i) = num("trig ") {
                win = Win::Trigger(i);
            } else if !data.starts_with("err ") {
                win = Win::Between;
            }
            continue;
        }
        if !rest.contains(logs) {
            if rest.contains("(INJECTED)") {
                // the failure hit a file that is not a log file (ack file, error channel file)
                out.push(Call { name: name.to_string(), n: *c, class: "other-file", win: win.clone(), injected: true });
            }
            continue;
        }
        let class = match name {
            "write" if rest.contains(".gz>") => "write-gz",
            "write" => "write-log",
            "rename" => "rename",
            "unlink" => "unlink",
            _ => {
                if rest.contains("O_CREAT") {
                    "open-create"
                } else if rest.contains("O_DIRECTORY") {
                    "open-dir"
                } else {
                    "open-read"
                }
            }
        };
        out.push(Call {
            name: name.to_string(),
            n: *c,
            class,
            win: win.clone(),
            injected: rest.contains("(INJECTED)"),
        });
    }
    out
}

/// ids per family file, oldest file first
fn ids_per_file(names: &NameCfg) -> Result<Vec<(String, Vec<u64>)>, String> {
    let obs = family::observe(names).map_err(|e| e.to_string())?;
    let mut out = Vec::new();
    for (i, f) in obs.family.iter().enumerate() {
        // a plain file and its .gz twin (legal after a failed compression) count once
        if f.entry.gz {
            let twin = |g: &family::FileObs| g.entry.kind == f.entry.kind && !g.entry.gz;
            if (i > 0 && twin(&obs.family[i - 1])) || obs.family.get(i + 1).is_some_and(twin) {
                continue;
            }
        }
        let c = f.content.as_ref().map_err(|e| format!("{}: {e}", f.entry.name))?;
        let mut ids = Vec::new();
        for line in String::from_utf8_lossy(c).lines() {
            match flw::parse_msg_id(line) {
                Some((0, 0, s)) => ids.push(s),
                _ => return Err(format!("{}: damaged line {:?}", f.entry.name, &line[..line.len().min(60)])),
            }
        }
        out.push((f.entry.name.clone(), ids));
    }
    Ok(out)
}

pub fn run_case(ctx: &mut CaseCtx) -> CaseResult {
    let sc = gen(&mut ctx.rng, &ctx.dir, ctx.thorough);
    let dir = ctx.dir.clone();
    let mut res = CaseResult::new(format!(
        "syscall-fault|{}|{}|{}",
        if sc.cfg.l2 { "L2" } else { "L1" },
        sc.cfg.names.naming.label(),
        sc.cfg.clean.label()
    ));
    let facts = format!("naming={}/cleanup={}", sc.cfg.names.naming.label(), sc.cfg.clean.label());
    let rng_seed = ctx.rng.next();
    let rng = &mut Rng(rng_seed);
    let ctx: &CaseCtx = ctx;
    let logs = sc.cfg.names.dir.to_string_lossy().to_string();
    let ack_file = dir.join("acks_sys.txt").to_string_lossy().to_string();
    let trace_file = dir.join("strace_sys.txt");
    let tf = trace_file.to_string_lossy().to_string();
    let reset = || {
        let _ = std::fs::remove_dir_all(dir.join("logs"));
        for f in ["acks_sys.txt", "errchan_sys.txt", "strace_sys.txt"] {
            let _ = std::fs::remove_file(dir.join(f));
        }
    };
    let run = |inject: Option<String>| {
        let mut w: Vec<String> = ["strace", "-f", "-y", "-qq", "-s", "40", "-e", "signal=none", "-o", &tf, "-e", "trace=write,openat,rename,unlink"]
            .iter()
            .map(|s| (*s).to_string())
            .collect();
        if let Some(i) = inject {
            w.push("-e".into());
            w.push(i);
        }
        child::spawn_wrapped(
            &child::Spawn {
                ctx,
                role: "sysfault",
                extra: vec![],
                env: vec![],
                timeout: Duration::from_secs(40),
                tag: "sysfault",
                cwd: None,
                kill_after: None,
            },
            &w,
        )
    };
    // the fault-free run: which calls are there
    reset();
    let base = run(None);
    let usable = matches!(&base, Ok(o) if o.clean_exit()) && trace_file.exists();
    if !usable {
        res.count("strace_unavailable", 1);
        if let Ok(o) = &base {
            if !o.timed_out && o.code.is_some() && o.code != Some(0) && trace_file.exists() {
                res.violate(
                    "child-died",
                    format!("C19/syscall-fault/child-died/no-fault/{facts}"),
                    format!("{}; {}", o.describe(), String::from_utf8_lossy(&o.stderr[..o.stderr.len().min(300)])),
                );
            }
        }
        return res;
    }
    let calls = parse_trace(&std::fs::read_to_string(&trace_file).unwrap_or_default(), &logs, &ack_file);
    let n_writes = sc.ops.iter().filter(|o| matches!(o, Op::Write(_))).count() as u64;
    let base_files = ids_per_file(&sc.cfg.names).unwrap_or_default();
    let base_ids: Vec<u64> = base_files.iter().flat_map(|(_, v)| v.iter().copied()).collect();
    res.count("syscalls_on_the_log_directory_in_traces", calls.len() as u64);
    if calls.is_empty() || base_ids.is_empty() {
        res.inconclusive("the traced run shows no system call on the log directory");
        return res;
    }
    // candidates: (call, first, last, errno)
    let mut cands: Vec<(Call, u32)> = Vec::new();
    for c in &calls {
        if c.class == "open-read" || c.class == "other-file" {
            continue; // the source of a compression: covered by the hook points
        }
        cands.push((c.clone(), 0));
        if rng.chance(1, 4) {
            cands.push((c.clone(), rng.range(1, 3) as u32)); // a burst
        }
    }
    let all = ctx.thorough && cands.len() <= 60;
    if !all {
        for i in (1..cands.len()).rev() {
            let j = rng.usize(i + 1);
            cands.swap(i, j);
        }
        // the calls of a set-up that happens on a directory with files (first record after a
        // restart) come first: few per history, and nothing else reaches that code
        let mut setup_ids: Vec<u64> = Vec::new();
        {
            let mut s = 0u64;
            let mut after_restart = false;
            for op in &sc.ops {
                match op {
                    Op::Restart(_) => after_restart = true,
                    Op::Write(_) => {
                        if after_restart {
                            setup_ids.push(s);
                            after_restart = false;
                        }
                        s += 1;
                    }
                    _ => {}
                }
            }
        }
        let mut picked: Vec<(Call, u32)> = Vec::new();
        let mut k = 0;
        while k < cands.len() && picked.len() < 5 {
            let in_setup = matches!(&cands[k].0.win, Win::Record(s) if setup_ids.contains(s))
                && matches!(cands[k].0.class, "rename" | "open-dir" | "open-create" | "unlink")
                && cands[k].1 == 0;
            if in_setup {
                picked.push(cands.remove(k));
            } else {
                k += 1;
            }
        }
        // every class should be seen
        for class in ["write-log", "open-create", "open-dir", "rename", "unlink", "write-gz"] {
            if let Some(p) = cands.iter().position(|(c, _)| c.class == class) {
                picked.push(cands.remove(p));
            }
        }
        let want = if ctx.thorough { 30 } else { 10 };
        while picked.len() < want && !cands.is_empty() {
            picked.push(cands.remove(0));
        }
        cands = picked;
    } else {
        res.count("histories_with_all_syscall_faults_enumerated", 1);
    }
    for (c, burst) in cands {
        let errno = match c.class {
            "write-log" | "write-gz" => *rng.pick(&["EIO", "ENOSPC"]),
            "open-create" => *rng.pick(&["EACCES", "EMFILE", "ENOSPC"]),
            "open-dir" => *rng.pick(&["EMFILE", "EACCES"]),
            "rename" => *rng.pick(&["EACCES", "EIO"]),
            _ => *rng.pick(&["EACCES", "EBUSY"]),
        };
        let when = if burst == 0 { format!("{}", c.n) } else { format!("{}..{}", c.n, c.n + burst) };
        reset();
        let out = match run(Some(format!("inject={}:error={errno}:when={when}", c.name))) {
            Ok(o) => o,
            Err(_) => {
                res.count("strace_unavailable", 1);
                break;
            }
        };
        if out.timed_out {
            // (decided like every hang: only when it happens again)
            reset();
            let again = run(Some(format!("inject={}:error={errno}:when={when}", c.name)));
            if matches!(&again, Ok(o) if o.timed_out) {
                res.violate(
                    "log-call-did-not-return",
                    format!("C19/syscall-fault/hang/{}/{facts}", c.class),
                    format!("{} #{when} fails with {errno} (in {:?}): the child did not end within 40 s, twice", c.name, c.win),
                );
                break;
            }
            res.count("strace_runs_over_the_watchdog", 1);
            continue;
        }
        let text = std::fs::read_to_string(&trace_file).unwrap_or_default();
        let seen = parse_trace(&text, &logs, &ack_file);
        let injected: Vec<&Call> = seen.iter().filter(|x| x.injected).collect();
        if injected.is_empty() {
            res.count("syscall_fault_not_reached", 1);
            continue;
        }
        if injected.iter().any(|x| x.class == "other-file") {
            res.count("syscall_fault_hit_another_file", 1);
            continue;
        }
        res.count("syscall_fault_runs", 1);
        res.count("syscall_failures_injected", injected.len() as u64);
        res.add_to_set("syscall_fault_classes", format!("{}:{errno}", c.class));
        let what = format!(
            "{} #{when} on the log directory fails with {errno} ({} failure(s): {})",
            c.name,
            injected.len(),
            injected.iter().map(|x| format!("{} in {:?}", x.class, x.win)).collect::<Vec<_>>().join(", ")
        );
        let sigtail = format!("{}/{facts}", c.class);
        if !out.clean_exit() {
            res.violate(
                "child-died",
                format!("C19/syscall-fault/child-died/{sigtail}"),
                format!("{what}: {}; stderr: {}", out.describe(), String::from_utf8_lossy(&out.stderr[..out.stderr.len().min(400)])),
            );
            break;
        }
        let acks = std::fs::read_to_string(dir.join("acks_sys.txt")).unwrap_or_default();
        let returned = acks.lines().filter(|l| l.starts_with("ack ")).count() as u64;
        if returned != n_writes {
            res.violate(
                "log-call-did-not-return",
                format!("C19/syscall-fault/log-call-did-not-return/{sigtail}"),
                format!("{what}: {returned} of {n_writes} log calls returned"),
            );
            break;
        }
        let files = match ids_per_file(&sc.cfg.names) {
            Ok(f) => f,
            Err(e) => {
                res.violate("damaged-output", format!("C19/syscall-fault/damaged-output/{sigtail}"), format!("{what}: {e}"));
                break;
            }
        };
        let ids: Vec<u64> = files.iter().flat_map(|(_, v)| v.iter().copied()).collect();
        // which records may be missing
        let write_failed: Vec<u64> = injected
            .iter()
            .filter(|x| x.class == "write-log")
            .filter_map(|x| if let Win::Record(s) = x.win { Some(s) } else { None })
            .collect();
        // (the writer is set up in the first log call: if a call of that set-up fails - creating
        // the file, moving an earlier current file out of the way - the record is given up)
        let create_failed: Vec<u64> = injected
            .iter()
            .filter(|x| matches!(x.class, "open-create" | "rename" | "open-dir"))
            .filter_map(|x| if let Win::Record(s) = x.win { Some(s) } else { None })
            .collect();
        let oldest_present = ids.first().copied().unwrap_or(u64::MAX);
        let limited = sc.cfg.clean != Clean::Never;
        let mut lost = Vec::new();
        // the writer is set up in the first log call after a start (and again after a set-up that
        // failed): a record is given up there if a call of the set-up failed in its window
        let mut uninitialised = true;
        let mut s = 0u64;
        for op in &sc.ops {
            match op {
                Op::Restart(_) => uninitialised = true,
                Op::Write(_) => {
                    let present = ids.contains(&s);
                    let setup_failed = uninitialised && create_failed.contains(&s);
                    if present || !setup_failed {
                        uninitialised = false;
                    }
                    let removed_by_limit = limited && s < oldest_present;
                    if !present && !(write_failed.contains(&s) || setup_failed || removed_by_limit) {
                        lost.push(s);
                    }
                    s += 1;
                }
                _ => {}
            }
        }
        if !lost.is_empty() {
            res.violate(
                "record-lost",
                format!("C19/syscall-fault/record-lost/{sigtail}"),
                format!("{what}: records {lost:?} are missing although their own write did not fail; files (oldest first): {files:?}; without the fault: {base_files:?}"),
            );
            break;
        }
        if ids.windows(2).any(|w| w[0] >= w[1]) {
            res.violate(
                "duplicated-or-reordered",
                format!("C19/syscall-fault/duplicated-or-reordered/{sigtail}"),
                format!("{what}: ids in the files (oldest first): {files:?}"),
            );
            break;
        }
        // reports
        // (an explicitly triggered rotation hands its error to the caller instead)
        let must_report = injected
            .iter()
            .any(|x| matches!(x.class, "write-log" | "rename" | "open-create") && matches!(x.win, Win::Record(_)));
        let reports = std::fs::read_to_string(dir.join("errchan_sys.txt")).unwrap_or_default();
        let n_reports = reports.lines().filter(|l| l.contains("ERRCODE") && !l.contains("Palette")).count();
        // (an L1 writer hands the error of a write to its caller: that is the report)
        let told_caller = acks.lines().any(|l| l.starts_with("err "));
        if must_report && n_reports == 0 && !told_caller {
            res.violate(
                "failure-not-reported",
                format!("C19/syscall-fault/failure-not-reported/{sigtail}"),
                format!("{what}: nothing on the error channel"),
            );
            break;
        }
        // recovery: explicit rotations after the failure separate the records around them
        let mut open_faults: std::collections::HashSet<Win> = injected
            .iter()
            .filter(|x| matches!(x.win, Win::Record(_) | Win::Trigger(_)))
            .map(|x| x.win.clone())
            .collect();
        let mut seq = 0u64;
        let mut trig = 0u64;
        let mut prev_written: Option<u64> = None;
        let file_of = |s: u64| files.iter().position(|(_, v)| v.contains(&s));
        let mut not_separated = None;
        let mut pending_trigger = false;
        for op in &sc.ops {
            let after = open_faults.is_empty();
            match op {
                Op::Write(_) => {
                    if after && pending_trigger {
                        if let (Some(p), true) = (prev_written, ids.contains(&seq)) {
                            if let (Some(a), Some(b)) = (file_of(p), file_of(seq)) {
                                if a == b {
                                    not_separated = Some((p, seq));
                                }
                            }
                        }
                    }
                    pending_trigger = false;
                    if after && ids.contains(&seq) {
                        prev_written = Some(seq);
                    }
                    open_faults.remove(&Win::Record(seq));
                    seq += 1;
                }
                Op::Trigger => {
                    if after && prev_written.is_some() {
                        pending_trigger = true;
                    }
                    open_faults.remove(&Win::Trigger(trig));
                    trig += 1;
                }
                Op::Tick => {}
                Op::Restart(_) => {
                    prev_written = None;
                    pending_trigger = false;
                }
            }
        }
        if let Some((p, q)) = not_separated {
            res.violate(
                "rotation-did-not-resume",
                format!("C19/syscall-fault/rotation-did-not-resume/{sigtail}"),
                format!("{what}: records {p} and {q} are in the same file although a rotation was triggered between them after the failure; files: {files:?}"),
            );
            break;
        }
        res.count("syscall_fault_runs_judged", 1);
    }
    res.nontrivial = res.counters.get("syscall_fault_runs_judged").and_then(serde_json::Value::as_u64).unwrap_or(0) >= 1;
    if ctx.case < 40 || res.verdict != crate::util::Verdict::Held {
        res.sample = Some(json!({
            "config": sc.cfg.to_json(),
            "ops": sc.ops.iter().map(|o| format!("{o:?}")).collect::<Vec<_>>(),
            "syscalls_on_log_dir": calls.len(),
        }));
    }
    res
}
