#![allow(dead_code)]
//! flmon — runtime monitors for flexi_logger (properties C01–C20).
//!
//! `flmon run <PROP> --seed S --shard J --cases N --secs T [--only I] [--thorough] [--out F]`
//! runs cases `0..N` (or until the time box ends) of one shard; every case derives its PRNG
//! state from (seed, property, shard, case) and prints one JSON line.
//! `flmon replay <file>` re-executes the case recorded in a replay file, verbosely.
//! `flmon child <role> ...` is the entry point for child-process scenarios.

mod child;
mod ctl;
mod family;
mod flw;
mod mirijob;
mod p_c01;
mod p_c02;
mod p_c03;
mod p_c04;
mod p_c05;
mod p_c06;
mod p_c07;
mod p_c07s;
mod p_c08;
mod p_c09;
mod p_c10;
mod p_c11;
mod p_c12;
mod p_c13;
mod p_c14;
mod p_c15;
mod p_c16;
mod p_c17;
mod p_c18;
mod p_c19;
mod p_c19r;
mod p_c19s;
mod p_c20;
mod rng;
mod spec;
mod util;

use serde_json::{json, Value};
use std::io::Write;
use std::time::{Duration, Instant};
use util::{CaseCtx, CaseResult, Verdict};

fn run_one(prop: &str, ctx: &mut CaseCtx) -> CaseResult {
    match prop {
        "C01" => p_c01::run_case(ctx),
        "C02" => p_c02::run_case(ctx),
        "C03" => p_c03::run_case(ctx),
        "C04" => p_c04::run_case(ctx),
        "C05" => p_c05::run_case(ctx),
        "C06" => p_c06::run_case(ctx),
        "C07" => p_c07::run_case(ctx),
        "C08" => p_c08::run_case(ctx),
        "C09" => p_c09::run_case(ctx),
        "C10" => p_c10::run_case(ctx),
        "C11" => p_c11::run_case(ctx),
        "C12" => p_c12::run_case(ctx),
        "C13" => p_c13::run_case(ctx),
        "C14" => p_c14::run_case(ctx),
        "C15" => p_c15::run_case(ctx),
        "C16" => p_c16::run_case(ctx),
        "C17" => p_c17::run_case(ctx),
        "C18" => p_c18::run_case(ctx),
        "C19" => p_c19::run_case(ctx),
        "C20" => p_c20::run_case(ctx),
        _ => {
            let mut r = CaseResult::new("unknown-property");
            r.inconclusive(format!("no monitor for {prop}"));
            r
        }
    }
}

struct Args {
    prop: String,
    seed: u64,
    shard: u64,
    cases: u64,
    secs: f64,
    only: Option<u64>,
    thorough: bool,
    verbose: bool,
    out: Option<String>,
}

fn parse_run_args(argv: &[String]) -> Args {
    let mut a = Args {
        prop: argv.first().cloned().unwrap_or_default(),
        seed: 1,
        shard: 0,
        cases: 100,
        secs: 30.0,
        only: None,
        thorough: false,
        verbose: false,
        out: None,
    };
    let mut i = 1;
    while i < argv.len() {
        let v = argv.get(i + 1).cloned().unwrap_or_default();
        match argv[i].as_str() {
            "--seed" => {
                a.seed = v.parse().unwrap_or(1);
                i += 1;
            }
            "--shard" => {
                a.shard = v.parse().unwrap_or(0);
                i += 1;
            }
            "--cases" => {
                a.cases = v.parse().unwrap_or(100);
                i += 1;
            }
            "--secs" => {
                a.secs = v.parse().unwrap_or(30.0);
                i += 1;
            }
            "--only" => {
                a.only = v.parse().ok();
                i += 1;
            }
            "--out" => {
                a.out = Some(v);
                i += 1;
            }
            "--thorough" => a.thorough = true,
            "--verbose" => a.verbose = true,
            _ => {}
        }
        i += 1;
    }
    a
}

fn raise_fd_limit() {
    unsafe {
        let mut rl = libc::rlimit {
            rlim_cur: 0,
            rlim_max: 0,
        };
        if libc::getrlimit(libc::RLIMIT_NOFILE, &mut rl) == 0 {
            rl.rlim_cur = rl.rlim_max.min(65536);
            libc::setrlimit(libc::RLIMIT_NOFILE, &rl);
        }
    }
}

/// fixed-offset time zones (no DST in the sampled years), chosen per shard before any thread
/// exists and before chrono is used for the first time
fn choose_tz(prop: &str, shard: u64) {
    if std::env::var("FLMON_KEEP_TZ").is_ok() {
        return;
    }
    let zones = ["UTC", "Asia/Kolkata", "America/Caracas", "Asia/Kathmandu"];
    let tz = match prop {
        "C09" | "C06" | "C16" | "C20" => zones[(shard % 4) as usize],
        _ => "UTC",
    };
    std::env::set_var("TZ", tz);
    if prop == "C20" && p_c20::forced_utc_shard(shard) {
        flexi_logger::DeferredNow::force_utc();
        ctl::set_forced_utc();
    }
}

fn run(args: &Args) -> i32 {
    choose_tz(&args.prop, args.shard);
    raise_fd_limit();
    util::install_panic_hook();
    flw::init_error_channel();
    let start = Instant::now();
    let mut out: Box<dyn Write> = match &args.out {
        Some(p) => Box::new(
            std::fs::OpenOptions::new()
                .create(true)
                .append(true)
                .open(p)
                .expect("cannot open --out file"),
        ),
        None => Box::new(std::io::stdout()),
    };
    let from: u64 = std::env::var("FLMON_FROM").ok().and_then(|v| v.parse().ok()).unwrap_or(0);
    let range: Vec<u64> = match args.only {
        Some(i) => vec![i],
        None => (from..args.cases).collect(),
    };
    let mut violated = false;
    for case in range {
        if args.only.is_none() && start.elapsed() > Duration::from_secs_f64(args.secs) {
            break;
        }
        let dir = util::fresh_dir(&format!("{}_s{}", args.prop, args.shard));
        let mut ctx = CaseCtx {
            prop: args.prop.clone(),
            seed: args.seed,
            shard: args.shard,
            case,
            rng: rng::Rng::for_case(args.seed, &args.prop, args.shard, case),
            dir: dir.clone(),
            thorough: args.thorough,
            verbose: args.verbose,
        };
        writeln!(out, "{}", json!({"begin": case})).ok();
        out.flush().ok();
        let t = Instant::now();
        // every case runs on a fresh thread: thread-local state of the crate (formatting
        // buffers) left behind by a panicking case cannot leak into the next case
        let prop = args.prop.clone();
        let joined = std::thread::Builder::new()
            .name("flmon-case".to_string())
            .stack_size(8 * 1024 * 1024)
            .spawn(move || {
                let r = std::panic::catch_unwind(std::panic::AssertUnwindSafe(|| {
                    run_one(&prop, &mut ctx)
                }));
                (r, ctx)
            })
            .expect("cannot spawn case thread")
            .join();
        let (r, ctx) = match joined {
            Ok(x) => x,
            Err(_) => {
                eprintln!("case thread died");
                std::process::exit(3);
            }
        };
        let mut res = match r {
            Ok(res) => res,
            Err(_) => {
                // a panic that escaped the monitor itself: never a verdict about the crate,
                // unless it originates in repository code
                let mut res = CaseResult::new("escaped-panic");
                res.absorb_panics(&args.prop, "escaped to the case runner");
                if res.verdict == Verdict::Held {
                    res.inconclusive("panic escaped the monitor");
                }
                ctl::uninstall();
                ctl::clock_unset();
                res
            }
        };
        let _ = util::take_panics();
        let _ = flw::take_error_channel();
        if res.verdict == Verdict::Violated {
            violated = true;
        }
        res.counters
            .insert("case_ms".into(), json!(t.elapsed().as_millis() as u64));
        let mut line: Value = res.to_json(&ctx);
        line["seed"] = json!(args.seed);
        line["prop"] = json!(args.prop);
        writeln!(out, "{line}").ok();
        if args.verbose {
            eprintln!("{}", serde_json::to_string_pretty(&line).unwrap_or_default());
        }
        let keep = std::env::var("FLMON_KEEP").is_ok() && res.verdict != Verdict::Held;
        if (args.only.is_none() && !keep) || res.verdict == Verdict::Held {
            util::remove_dir(&dir);
        } else {
            eprintln!("scratch directory kept: {}", dir.display());
        }
    }
    out.flush().ok();
    let _ = std::fs::remove_file(flw::error_channel_path());
    i32::from(violated)
}

fn replay(path: &str) -> i32 {
    let text = match std::fs::read_to_string(path) {
        Ok(t) => t,
        Err(e) => {
            eprintln!("cannot read {path}: {e}");
            return 2;
        }
    };
    let v: Value = match serde_json::from_str(&text) {
        Ok(v) => v,
        Err(e) => {
            eprintln!("cannot parse {path}: {e}");
            return 2;
        }
    };
    let args = Args {
        prop: v["prop"].as_str().unwrap_or("").to_string(),
        seed: v["seed"].as_u64().unwrap_or(1),
        shard: v["shard"].as_u64().unwrap_or(0),
        cases: 0,
        secs: 3600.0,
        only: v["case"].as_u64(),
        thorough: v["thorough"].as_bool().unwrap_or(false),
        verbose: true,
        out: None,
    };
    let tries = v["replay_tries"].as_u64().unwrap_or(1);
    let mut rc = 0;
    for _ in 0..tries {
        rc = run(&args);
        if rc != 0 {
            break;
        }
    }
    if rc != 0 {
        println!(
            "VIOLATION property={} replay={}",
            args.prop,
            path
        );
    } else {
        println!("replay: the recorded case held this time");
    }
    rc
}

fn main() {
    let argv: Vec<String> = std::env::args().collect();
    let code = match argv.get(1).map(String::as_str) {
        Some("run") => run(&parse_run_args(&argv[2..])),
        Some("child") => {
            util::install_panic_hook_printing();
            let a = child::parse_child_args(&argv[2..]);
            match (a.prop.as_str(), a.role.as_str()) {
                ("C20", _) => p_c20::child_main(&a),
                ("C06", _) => p_c06::child_main(&a),
                ("C16", "dst") => p_c06::child_main(&a),
                ("C13", _) => p_c13::child_main(&a),
                ("C14", _) => p_c14::child_main(&a),
                ("C03", _) => p_c03::child_main(&a),
                ("C04", _) => p_c04::child_main(&a),
                ("C10", _) => p_c10::child_main(&a),
                ("C11", _) => p_c11::child_main(&a),
                ("C19", "sysfault") => p_c19s::child_main(&a),
                ("C19", _) => p_c19::child_main(&a),
                _ => {
                    eprintln!("no child role {} for {}", a.role, a.prop);
                    2
                }
            }
        }
        Some("mirijob") => mirijob::run(
            argv.get(2).map(String::as_str).unwrap_or("c03"),
            argv.get(3).and_then(|v| v.parse().ok()).unwrap_or(1),
            std::path::Path::new(argv.get(4).map(String::as_str).unwrap_or("/tmp/flmon_mirijob")),
        ),
        Some("replay") => replay(argv.get(2).map(String::as_str).unwrap_or("")),
        _ => {
            eprintln!("usage: flmon run <PROP> [--seed S --shard J --cases N --secs T --only I --thorough --out F] | replay <file>");
            2
        }
    };
    std::process::exit(code);
}
