//! C17 — specification text forms round-trip; parsing reports exactly the malformed parts.
//! Oracle: decision equivalence on a level x target grid; reference parser written from the
//! documented BNF with an explicit *unspecified* class (only "no panic" is asserted there).

use crate::rng::Rng;
use crate::spec::{self, MSpec};
use crate::util::{CaseCtx, CaseResult, Verdict};
use flexi_logger::{FlexiLoggerError, LogSpecification};
use log::LevelFilter;
use serde_json::json;

#[derive(Debug, Clone, PartialEq, Eq)]
enum Class {
    Specified,
    /// the documentation is silent about this input
    Unspecified(&'static str),
}

#[derive(Debug, Clone)]
struct RefParse {
    class: Class,
    ok: bool,
    entries: Vec<(Option<String>, LevelFilter)>,
    /// Some(regex source) if a valid text filter is part of the input
    regex: Option<String>,
}

fn parse_level(s: &str) -> Option<LevelFilter> {
    match s.to_lowercase().as_str() {
        "off" => Some(LevelFilter::Off),
        "error" => Some(LevelFilter::Error),
        "warn" => Some(LevelFilter::Warn),
        "info" => Some(LevelFilter::Info),
        "debug" => Some(LevelFilter::Debug),
        "trace" => Some(LevelFilter::Trace),
        _ => None,
    }
}

/// <log_level_spec> ::= single[{,single}][/<regex>]; single ::= path | level | path=level;
/// "a bit more tolerant with spaces"
fn ref_parse(input: &str) -> RefParse {
    let mut out = RefParse {
        class: Class::Specified,
        ok: true,
        entries: Vec::new(),
        regex: None,
    };
    let pieces: Vec<&str> = input.split('/').collect();
    if pieces.len() > 2 {
        // the overall structure is malformed: nothing is salvaged
        out.ok = false;
        return out;
    }
    let mods = pieces[0];
    if mods.trim().is_empty() && !mods.is_empty() {
        out.class = Class::Unspecified("whitespace-only module part");
    }
    for part in mods.split(',') {
        let p = part.trim();
        if p.is_empty() {
            if mods.contains(',') {
                out.class = Class::Unspecified("empty part between commas");
            }
            continue;
        }
        let eq: Vec<&str> = p.split('=').collect();
        match eq.len() {
            1 => {
                if p.chars().any(char::is_whitespace) {
                    out.ok = false;
                    continue;
                }
                match parse_level(p) {
                    Some(l) => out.entries.push((None, l)),
                    None => {
                        if p.chars().all(|c| c.is_ascii_digit()) {
                            out.class = Class::Unspecified("number as single part");
                        }
                        out.entries.push((Some(p.to_string()), LevelFilter::Trace));
                    }
                }
            }
            2 => {
                let name = eq[0].trim();
                let lvl = eq[1].trim();
                if name.is_empty() {
                    out.class = Class::Unspecified("empty module name before '='");
                    continue;
                }
                if lvl.is_empty() {
                    out.class = Class::Unspecified("empty level after '='");
                    continue;
                }
                if name.chars().any(char::is_whitespace) {
                    out.ok = false;
                    if parse_level(lvl).is_none() {
                        out.class = Class::Unspecified("whitespace in name next to another error");
                    }
                    continue;
                }
                match parse_level(lvl) {
                    Some(l) => out.entries.push((Some(name.to_string()), l)),
                    None => {
                        if lvl.chars().all(|c| c.is_ascii_digit()) {
                            out.class = Class::Unspecified("number as level");
                        }
                        out.ok = false;
                    }
                }
            }
            _ => {
                out.ok = false;
            }
        }
    }
    // duplicates: the statement quantifies over specifications naming each module at most once
    let mut seen: Vec<&Option<String>> = Vec::new();
    for (n, _) in &out.entries {
        if seen.contains(&n) {
            out.class = Class::Unspecified("duplicate entry");
        }
        seen.push(n);
    }
    if pieces.len() == 2 {
        match regex::Regex::new(pieces[1]) {
            Ok(_) => out.regex = Some(pieces[1].to_string()),
            Err(_) => out.ok = false,
        }
    }
    out
}

fn decide_equal(
    real: &LogSpecification,
    model: &MSpec,
    targets: &[String],
) -> Result<u64, String> {
    let mut n = 0;
    for t in targets {
        for lvl in spec::LEVELS {
            n += 1;
            let a = real.enabled(lvl, t);
            let b = model.enabled(lvl, t);
            if a != b {
                return Err(format!(
                    "level {lvl}, target {t:?}: parsed spec decides {a}, reference decides {b}"
                ));
            }
        }
    }
    Ok(n)
}

fn decide_equal_real(
    a: &LogSpecification,
    b: &LogSpecification,
    targets: &[String],
) -> Result<u64, String> {
    let mut n = 0;
    for t in targets {
        for lvl in spec::LEVELS {
            n += 1;
            if a.enabled(lvl, t) != b.enabled(lvl, t) {
                return Err(format!(
                    "level {lvl}, target {t:?}: original decides {}, round-tripped decides {}",
                    a.enabled(lvl, t),
                    b.enabled(lvl, t)
                ));
            }
        }
    }
    Ok(n)
}

fn gen_string(rng: &mut Rng) -> String {
    let atoms = [
        "a", "b", "a::b", "a::bc", "core", "info", "debug", "INFO", "Warn", "off", "trace", "error",
        "=", "=", ",", ",", "/", " ", " ", "  ", "\t", "3", "12", "é", "{", "}", "x_y", "::", "foo",
        "[", "(", ")", "|", "^", "$", ".", "*", "=info", "=debug", ", ", " = ",
    ];
    // mostly short; now and then long (hundreds of parts: long error texts, many entries)
    let n = if rng.chance(1, 10) { rng.range(40, 400) } else { rng.range(0, 12) };
    let mut s = String::new();
    for _ in 0..n {
        s.push_str(*rng.pick(&atoms));
    }
    s
}

fn gen_unicode(rng: &mut Rng) -> String {
    let n = if rng.chance(1, 10) { rng.range(60, 600) } else { rng.range(0, 20) };
    let mut s = String::new();
    for _ in 0..n {
        let c = match rng.below(6) {
            0 => char::from_u32(rng.below(0x80) as u32),
            1 => char::from_u32(0x80 + rng.below(0x700) as u32),
            2 => char::from_u32(0x4E00 + rng.below(0x100) as u32),
            3 => char::from_u32(0x1F600 + rng.below(0x40) as u32),
            4 => Some(*rng.pick(&['=', ',', '/', ' ', '\n', '\u{a0}', '\u{2028}', '{', '}'])),
            _ => char::from_u32(rng.below(0x11_0000) as u32),
        };
        if let Some(c) = c {
            s.push(c);
        }
    }
    s
}

pub fn run_case(ctx: &mut CaseCtx) -> CaseResult {
    let rng = &mut ctx.rng;
    let kind = ctx.case % 4;
    let mut res = CaseResult::new("c17");
    match kind {
        0 | 1 => {
            // structured specification through Display / TOML (/ specfile)
            let m = spec::gen_mspec(rng, false, true);
            let via_builder = rng.chance(1, 2);
            let (orig, model) = if via_builder {
                (m.to_real_via_builder(), m.with_builder_default())
            } else {
                let s = m.to_spec_string(rng);
                match LogSpecification::parse(&s) {
                    Ok(r) => (r, m.clone()),
                    Err(e) => {
                        res.violate(
                            "wellformed-spec-rejected",
                            "C17/wellformed-spec-rejected",
                            format!("{s:?}: {e:?}"),
                        );
                        return res;
                    }
                }
            };
            let targets = spec::grid_targets(&[&model]);
            // the original itself must follow the reference matcher
            if let Err(d) = decide_equal(&orig, &model, &targets) {
                res.violate("spec-decides-differently", "C17/spec-vs-matcher", d);
                return res;
            }
            let form;
            let back = if kind == 0 {
                form = "display";
                let text = orig.to_string();
                res.count("display_round_trips", 1);
                match LogSpecification::parse(&text) {
                    Ok(b) => b,
                    Err(e) => {
                        res.violate(
                            "display-form-rejected",
                            "C17/display-form-rejected",
                            format!("Display gives {text:?} which parse() rejects: {e:?}"),
                        );
                        return res;
                    }
                }
            } else {
                form = "toml";
                let mut buf: Vec<u8> = Vec::new();
                if let Err(e) = orig.to_toml(&mut buf) {
                    res.violate("to_toml-failed", "C17/to_toml-failed", format!("{e:?}"));
                    return res;
                }
                let text = String::from_utf8_lossy(&buf).to_string();
                res.count("toml_round_trips", 1);
                match LogSpecification::from_toml(&text) {
                    Ok(b) => b,
                    Err(e) => {
                        res.violate(
                            "toml-form-rejected",
                            "C17/toml-form-rejected",
                            format!("to_toml gives {text:?} which from_toml() rejects: {e:?}"),
                        );
                        return res;
                    }
                }
            };
            match decide_equal_real(&orig, &back, &targets) {
                Ok(n) => res.count("grid_points", n),
                Err(d) => {
                    res.violate(
                        "round-trip-decides-differently",
                        format!("C17/round-trip-decides-differently/{form}"),
                        format!("spec {:?}: {d}", model.entries),
                    );
                }
            }
            res.shape = format!(
                "{form}|{}|names{}|{}",
                if via_builder { "builder" } else { "string" },
                model.names().len().min(4),
                if model.has_default() { "default" } else { "nodefault" }
            );
            res.nontrivial = !model.entries.is_empty();
            if ctx.case < 4 {
                res.sample = Some(json!({"spec": format!("{:?}", model.entries), "form": form,
                    "display": orig.to_string()}));
            }
        }
        _ => {
            // strings: alphabet strings and arbitrary Unicode
            let s = if kind == 2 {
                if rng.chance(1, 3) {
                    // a well-formed spec with one part damaged
                    let m = spec::gen_mspec(rng, true, true);
                    let mut t = m.to_spec_string(rng);
                    let damage = ["=x", ",a=b=c", ", q r", "/[", "=", ",,", " , bad=lvl", "/a/b"];
                    let pos = rng.usize(t.len() + 1);
                    let mut pos = pos;
                    while !t.is_char_boundary(pos) {
                        pos -= 1;
                    }
                    t.insert_str(pos, *rng.pick(&damage));
                    t
                } else {
                    gen_string(rng)
                }
            } else {
                gen_unicode(rng)
            };
            let r = ref_parse(&s);
            let parsed = std::panic::catch_unwind(|| LogSpecification::parse(&s));
            let parsed = match parsed {
                Ok(p) => p,
                Err(_) => {
                    res.absorb_panics("C17", &format!("LogSpecification::parse({s:?})"));
                    if res.verdict == Verdict::Held {
                        res.violate("panic", "C17/panic/parse", format!("parse({s:?}) panicked"));
                    }
                    return res;
                }
            };
            res.count("strings_parsed", 1);
            let class_label = match &r.class {
                Class::Specified => "specified",
                Class::Unspecified(_) => "unspecified",
            };
            res.shape = format!(
                "{}|{}|{}|{}",
                if kind == 2 { "alphabet" } else { "unicode" },
                class_label,
                if r.ok { "wellformed" } else { "malformed" },
                r.entries.len().min(3),
            );
            if let Class::Unspecified(why) = &r.class {
                res.count("unspecified_inputs", 1);
                res.add_to_set("unspecified_reasons", *why);
                res.nontrivial = false;
                // Not specified is what an empty part means - but "tolerant with spaces" says that
                // a part of blanks only means what an empty part means: the same string with such
                // parts emptied must be accepted or rejected alike and decide alike.
                if why.contains("empty part") || why.contains("whitespace-only") {
                    let (mods, rest) = match s.find('/') {
                        Some(i) => (&s[..i], &s[i..]),
                        None => (s.as_str(), ""),
                    };
                    let emptied: String = mods
                        .split(',')
                        .map(|p| if p.trim().is_empty() { "" } else { p })
                        .collect::<Vec<_>>()
                        .join(",")
                        + rest;
                    if emptied != s {
                        let other = LogSpecification::parse(&emptied);
                        let pair = |x: Result<LogSpecification, FlexiLoggerError>| match x {
                            Ok(sp) => (true, Some(sp)),
                            Err(FlexiLoggerError::Parse(_, sp)) => (false, Some(sp)),
                            Err(_) => (false, None),
                        };
                        let (ok_a, sp_a) = pair(parsed);
                        let (ok_b, sp_b) = pair(other);
                        res.count("blank_part_relations_checked", 1);
                        let model = MSpec { entries: r.entries.clone(), text: None };
                        let mut targets = spec::grid_targets(&[&model]);
                        targets.push("zzz::unrelated".into());
                        targets.push(String::new());
                        let same = ok_a == ok_b
                            && match (&sp_a, &sp_b) {
                                (Some(a), Some(b)) => decide_equal_real(a, b, &targets).is_ok(),
                                (None, None) => true,
                                _ => false,
                            };
                        if !same {
                            res.nontrivial = true;
                            res.violate(
                                "blank-part-differs-from-empty-part",
                                "C17/blank-part-differs-from-empty-part",
                                format!(
                                    "{s:?} and {emptied:?} (parts of blanks emptied) are treated differently: {} vs {}{}",
                                    if ok_a { "Ok" } else { "Err" },
                                    if ok_b { "Ok" } else { "Err" },
                                    match (&sp_a, &sp_b) {
                                        (Some(a), Some(b)) => match decide_equal_real(a, b, &targets) {
                                            Err(d) => format!("; {d}"),
                                            Ok(_) => String::new(),
                                        },
                                        _ => String::new(),
                                    }
                                ),
                            );
                        }
                        if ctx.case < 8 || res.verdict != Verdict::Held {
                            res.sample = Some(json!({"input": s, "emptied": emptied}));
                        }
                        res.absorb_panics("C17", "spec text forms");
                        return res;
                    }
                }
            } else {
                res.nontrivial = true;
                let model = MSpec {
                    entries: r.entries.clone(),
                    text: None,
                };
                let targets = spec::grid_targets(&[&model]);
                let (is_ok, carried): (bool, Option<LogSpecification>) = match parsed {
                    Ok(sp) => (true, Some(sp)),
                    Err(FlexiLoggerError::Parse(_, sp)) => (false, Some(sp)),
                    Err(_) => (false, None),
                };
                if is_ok != r.ok {
                    res.violate(
                        "ok-err-differs",
                        format!(
                            "C17/{}",
                            if r.ok {
                                "wellformed-input-rejected"
                            } else {
                                "malformed-input-accepted"
                            }
                        ),
                        format!("{s:?}: parse() returned {}, reference says {}", if is_ok { "Ok" } else { "Err" }, if r.ok { "well-formed" } else { "malformed" }),
                    );
                } else if let Some(sp) = carried {
                    match decide_equal(&sp, &model, &targets) {
                        Ok(n) => res.count("grid_points", n),
                        Err(d) => res.violate(
                            "carried-spec-differs",
                            format!(
                                "C17/{}-spec-differs",
                                if r.ok { "parsed" } else { "salvaged" }
                            ),
                            format!("{s:?}: reference keeps {:?}; {d}", r.entries),
                        ),
                    }
                    let got_re = sp.text_filter().map(|re| re.as_str().to_string());
                    if got_re != r.regex {
                        res.violate(
                            "text-filter-differs",
                            "C17/text-filter-differs",
                            format!("{s:?}: expected text filter {:?}, got {:?}", r.regex, got_re),
                        );
                    }
                } else {
                    res.violate(
                        "unexpected-error-kind",
                        "C17/unexpected-error-kind",
                        format!("{s:?}: not a Parse error"),
                    );
                }
            }
            // the same text through the RUST_LOG entry points (process environment: cases of a
            // shard run one after the other and C17 starts no threads)
            if matches!(r.class, Class::Specified)
                && res.verdict == Verdict::Held
                && ctx.case % 16 == 2
                && !s.contains('\0')
            {
                let model = MSpec { entries: r.entries.clone(), text: None };
                let warn_only = MSpec { entries: vec![(None, LevelFilter::Warn)], text: None };
                let nothing = MSpec { entries: vec![], text: None };
                let targets = spec::grid_targets(&[&model]);
                std::env::set_var("RUST_LOG", &s);
                let via_env = LogSpecification::env();
                let via_env_or = LogSpecification::env_or_parse("warn");
                std::env::remove_var("RUST_LOG");
                let unset_env = LogSpecification::env();
                let unset_env_or = LogSpecification::env_or_parse(&s);
                res.count("env_forms_checked", 1);
                let mut check = |what: &str, got: Result<LogSpecification, FlexiLoggerError>, want_ok: bool, want: &MSpec| {
                    let (is_ok, sp) = match got {
                        Ok(sp) => (true, Some(sp)),
                        Err(FlexiLoggerError::Parse(_, sp)) => (false, Some(sp)),
                        Err(_) => (false, None),
                    };
                    if is_ok != want_ok {
                        res.violate(
                            "env-form-differs",
                            format!("C17/env-form/{what}/ok-err-differs"),
                            format!("RUST_LOG={s:?}: {what} returned {}, expected {}", if is_ok { "Ok" } else { "Err" }, if want_ok { "Ok" } else { "Err" }),
                        );
                    } else if let Some(sp) = sp {
                        if let Err(d) = decide_equal(&sp, want, &targets) {
                            res.violate(
                                "env-form-differs",
                                format!("C17/env-form/{what}/spec-differs"),
                                format!("RUST_LOG={s:?}: {what}: {d}"),
                            );
                        }
                    }
                };
                check("env()", via_env, r.ok, &model);
                // env_or_parse: the variable if it parses, else the given string
                if r.ok {
                    check("env_or_parse(set)", via_env_or, true, &model);
                } else {
                    check("env_or_parse(set,malformed)", via_env_or, true, &warn_only);
                }
                check("env()-unset", unset_env, true, &nothing);
                check("env_or_parse(unset)", unset_env_or, r.ok, &model);
            }
            if ctx.case < 8 || res.verdict != Verdict::Held {
                res.sample = Some(json!({"input": s, "reference": format!("{r:?}")}));
            }
        }
    }
    res.absorb_panics("C17", "spec text forms");
    res
}
