#!/usr/bin/env python3
"""bin/witness.py <PROP> <seed> <shard> <case> <out.json> [--thorough]
Re-runs one case and stores its record as a witness file (used before a fix: commit is made)."""
import json, subprocess, sys
prop, seed, shard, case, out = sys.argv[1:6]
cmd = ["/verif/harness/target/release/flmon", "run", prop, "--seed", seed, "--shard", shard, "--only", case]
if "--thorough" in sys.argv: cmd.append("--thorough")
p = subprocess.run(cmd, stdout=subprocess.PIPE, stderr=subprocess.DEVNULL, text=True)
rec = None
for l in p.stdout.splitlines():
    try:
        r = json.loads(l)
    except Exception:
        continue
    if "verdict" in r:
        rec = r
head = subprocess.run(["git", "-C", "/repo", "rev-parse", "--short", "HEAD"], stdout=subprocess.PIPE, text=True).stdout.strip()
if rec is None or rec["verdict"] != "violated":
    print("case did not violate:", rec and rec["verdict"]); sys.exit(1)
json.dump({"prop": prop, "seed": int(seed), "shard": int(shard), "case": int(case),
           "thorough": "--thorough" in sys.argv, "repo_head_when_observed": head,
           "violations": rec["violations"], "shape": rec["shape"], "scenario": rec["sample"]},
          open(out, "w"), indent=1)
print("witness written:", out, [v["sig"] for v in rec["violations"]])
