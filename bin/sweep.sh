#!/bin/bash
# bin/sweep.sh <quick|thorough> <seed> [props...] : runs the checks at one VERIF_SEED, prints one line per
# property, keeps the full output and any replay files under /dev/shm/flmon_sweep/<tier>_<seed>/
TIER=$1; SEED=$2; shift 2
PROPS=${@:-C01 C02 C03 C04 C05 C06 C07 C08 C09 C10 C11 C12 C13 C14 C15 C16 C17 C18 C19 C20}
OUT=/dev/shm/flmon_sweep/${TIER}_${SEED}; mkdir -p $OUT
cd /verif
for p in $PROPS; do
  VERIF_SEED=$SEED bin/check $p --tier $TIER > $OUT/$p.log 2>&1; rc=$?
  nv=$(grep -c "^VIOLATION" $OUT/$p.log); kf=$(grep -c "^KNOWN-FINDING" $OUT/$p.log)
  echo "$p seed=$SEED tier=$TIER exit=$rc violations=$nv known=$kf $(grep -o 'wall [0-9.]*s' $OUT/$p.log | tail -1) $(grep -o '[0-9]* inconclusive' $OUT/$p.log | tail -1)"
  if [ $rc -ne 0 ] || [ $nv -ne 0 ]; then mkdir -p $OUT/replays; cp -r /verif/replays/$p $OUT/replays/ 2>/dev/null; fi
done
