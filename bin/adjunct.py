"""Interpreter / sanitizer adjuncts (DESIGN §6): Miri with many scheduler seeds and a
ThreadSanitizer-built pass, running `flmon mirijob` (the C03/C04/C12 oracles on tiny inputs).
Used by bin/check in the thorough tier; never decides a property alone. A tool that cannot be run
is reported as such (inconclusive), never as a violation."""
import concurrent.futures
import os
import re
import subprocess
import time

VERIF = os.path.dirname(os.path.dirname(os.path.abspath(__file__)))
HARNESS = os.path.join(VERIF, "harness")


def _scratch(tag):
    base = "/dev/shm" if os.path.isdir("/dev/shm") else "/tmp"
    d = os.path.join(base, "flmon", f"adj_{tag}_{os.getpid()}")
    os.makedirs(d, exist_ok=True)
    return d


def miri(kind, seeds, base_seed, jobs=16, timeout=600):
    """returns dict(runs, ok, violations[], ub_reports[], fingerprints, unavailable)"""
    env = dict(os.environ)
    env["CARGO_NET_OFFLINE"] = "true"
    env.pop("RUSTFLAGS", None)
    scratch = _scratch(f"miri_{kind}")
    tdir = os.path.join(HARNESS, "target-miri")
    res = {"tool": "miri", "kind": kind, "runs": 0, "ok": 0, "violations": [], "ub_reports": [],
           "inconclusive": 0, "fingerprints": set(), "unavailable": None, "wall_s": 0.0}
    t0 = time.time()
    # warm-up (build) once, sequentially
    def one(i):
        e = dict(env)
        e["MIRIFLAGS"] = f"-Zmiri-disable-isolation -Zmiri-seed={base_seed * 1000 + i}"
        cmd = ["cargo", "+nightly", "miri", "run", "--offline", "--target-dir", tdir, "--",
               "mirijob", kind, str(base_seed * 1000 + i), os.path.join(scratch, f"d{i}")]
        try:
            p = subprocess.run(cmd, cwd=HARNESS, env=e, stdout=subprocess.PIPE,
                               stderr=subprocess.STDOUT, text=True, timeout=timeout)
            return i, p.returncode, p.stdout
        except subprocess.TimeoutExpired:
            return i, None, "TIMEOUT"
        except Exception as ex:  # tool missing
            return i, None, f"UNAVAILABLE {ex}"
    i0, rc0, out0 = one(0)
    outs = [(i0, rc0, out0)]
    if "UNAVAILABLE" in out0 or ("error" in out0 and "MIRIJOB" not in out0 and "Undefined" not in out0):
        res["unavailable"] = out0[-400:]
        res["wall_s"] = round(time.time() - t0, 1)
        res["fingerprints"] = 0
        return res
    with concurrent.futures.ThreadPoolExecutor(max_workers=jobs) as ex:
        outs += list(ex.map(one, range(1, seeds)))
    for i, rc, out in outs:
        res["runs"] += 1
        m = re.search(r"^MIRIJOB (\S+) (.*)$", out, re.M)
        if "Undefined Behavior" in out or "data race" in out.lower():
            res["ub_reports"].append({"seed": base_seed * 1000 + i, "report": out[-1500:]})
        elif m and m.group(1) == "ok":
            res["ok"] += 1
            f = re.search(r"fingerprint=(\w+)", m.group(2))
            if f:
                res["fingerprints"].add(f.group(1))
        elif m and m.group(1) == "VIOLATION":
            res["violations"].append({"seed": base_seed * 1000 + i, "detail": m.group(2)[:600]})
        else:
            res["inconclusive"] += 1
    subprocess.run(["rm", "-rf", scratch])
    res["fingerprints"] = len(res["fingerprints"])
    res["wall_s"] = round(time.time() - t0, 1)
    return res


def tsan(kinds, seeds, base_seed, timeout=900):
    """builds flmon with -Zsanitizer=thread -Zbuild-std and runs mirijob natively"""
    env = dict(os.environ)
    env["CARGO_NET_OFFLINE"] = "true"
    env["RUSTFLAGS"] = "-Zsanitizer=thread"
    tdir = os.path.join(HARNESS, "target-tsan")
    res = {"tool": "tsan", "runs": 0, "ok": 0, "violations": [], "race_reports": [],
           "inconclusive": 0, "unavailable": None, "wall_s": 0.0}
    t0 = time.time()
    try:
        p = subprocess.run(["cargo", "+nightly", "build", "--offline", "-Zbuild-std", "--target",
                            "x86_64-unknown-linux-gnu", "--target-dir", tdir],
                           cwd=HARNESS, env=env, stdout=subprocess.PIPE, stderr=subprocess.STDOUT,
                           text=True, timeout=timeout)
    except Exception as ex:
        res["unavailable"] = str(ex)[:300]
        return res
    if p.returncode != 0:
        res["unavailable"] = p.stdout[-600:]
        res["wall_s"] = round(time.time() - t0, 1)
        return res
    exe = os.path.join(tdir, "x86_64-unknown-linux-gnu", "debug", "flmon")
    scratch = _scratch("tsan")
    e2 = dict(os.environ)
    e2["TSAN_OPTIONS"] = "halt_on_error=0 report_signal_unsafe=0"
    seen = set()
    for kind in kinds:
        for i in range(seeds):
            try:
                q = subprocess.run([exe, "mirijob", kind, str(base_seed * 1000 + i),
                                    os.path.join(scratch, f"{kind}{i}")], env=e2,
                                   stdout=subprocess.PIPE, stderr=subprocess.PIPE, text=True,
                                   timeout=120)
            except subprocess.TimeoutExpired:
                res["inconclusive"] += 1
                continue
            res["runs"] += 1
            if "MIRIJOB ok" in q.stdout:
                res["ok"] += 1
            elif "MIRIJOB VIOLATION" in q.stdout:
                res["violations"].append({"kind": kind, "seed": base_seed * 1000 + i,
                                          "detail": q.stdout[-500:]})
            for blk in q.stderr.split("WARNING: ThreadSanitizer")[1:]:
                frames = re.findall(r"#\d+ (\S+)", blk)
                key = tuple(re.sub(r"\d+", "", f) for f in frames[:6])
                if key not in seen:
                    seen.add(key)
                    res["race_reports"].append({"kind": kind, "seed": base_seed * 1000 + i,
                                                "report": blk[:1500]})
    # the real C03 stress (files, rotations, noise) under TSan: a few dozen cases
    try:
        out = os.path.join(scratch, "c03.jsonl")
        e3 = dict(e2)
        e3["FLMON_WORK"] = os.path.join(scratch, "work")
        q = subprocess.run([exe, "run", "C03", "--seed", str(base_seed), "--shard", "0",
                            "--cases", "24", "--secs", "120", "--out", out], env=e3,
                           stdout=subprocess.PIPE, stderr=subprocess.PIPE, text=True, timeout=400)
        res["c03_cases_under_tsan"] = sum(1 for l in open(out) if '"verdict"' in l) \
            if os.path.exists(out) else 0
        if os.path.exists(out):
            for l in open(out):
                if '"verdict":"violated"' in l:
                    res["violations"].append({"kind": "C03-under-tsan", "detail": l[:600]})
        for blk in q.stderr.split("WARNING: ThreadSanitizer")[1:]:
            frames = re.findall(r"#\d+ (\S+)", blk)
            key = tuple(re.sub(r"\d+", "", f) for f in frames[:6])
            if key not in seen:
                seen.add(key)
                res["race_reports"].append({"kind": "C03-stress", "seed": base_seed,
                                            "report": blk[:1500]})
    except subprocess.TimeoutExpired:
        res["inconclusive"] += 1
    subprocess.run(["rm", "-rf", scratch])
    res["wall_s"] = round(time.time() - t0, 1)
    return res
