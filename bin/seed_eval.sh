#!/bin/bash
# bin/seed_eval.sh <SEED_ID> <worktree> "<demo features or ->" <prop> [more props...]
# Confirms an independently written property-breaking change (demo fails with / passes without,
# pinned suite still passes with it), stores it under /verif/seeded/<SEED_ID>/, then applies it to
# /repo, runs the quick checks of the given properties, and undoes it straight afterwards.
set -u
SID=$1; WT=$2; FEAT=$3; shift 3; PROPS="$@"
OUT=/verif/seeded/$SID
mkdir -p $OUT
export CARGO_TARGET_DIR=$WT/target
cd $WT || exit 2
PATCH=$WT/SEED_RESULT/patch.diff
[ -f $PATCH ] || { echo "no patch"; exit 2; }
FARG=""; [ "$FEAT" != "-" ] && FARG="--features $FEAT"
DEMOS=$(ls tests/seed_demo*.rs 2>/dev/null | xargs -n1 basename 2>/dev/null | sed 's/\.rs$//' | tr '\n' ' ')
echo "demo tests: $DEMOS (features: $FEAT)"
git checkout -q -- src && git apply $PATCH || { echo "patch does not apply"; exit 2; }
WITH=""; for d in $DEMOS; do cargo test --offline $FARG --test $d >/tmp/seed_eval_$SID.with 2>&1; WITH="$WITH $d:$?"; done
git apply -R $PATCH
WITHOUT=""; for d in $DEMOS; do cargo test --offline $FARG --test $d >/tmp/seed_eval_$SID.without 2>&1; WITHOUT="$WITHOUT $d:$?"; done
git apply $PATCH
echo "demo exit codes with change:$WITH   without change:$WITHOUT"
SUITE=$(cargo nextest run --workspace --no-fail-fast --test-threads 8 --offline 2>&1 | grep -E "Summary|tests run" | tail -1)
echo "suite with change: $SUITE"
cp $PATCH $OUT/patch.diff
# a patch that no longer applies to /repo's HEAD is evaluated in a ported form (REPO_PATCH=<file>)
if [ -n "${REPO_PATCH:-}" ]; then cp $PATCH $OUT/patch.original.diff; cp $REPO_PATCH $OUT/patch.diff; fi
cp SEED_RESULT/README.md $OUT/README.agent.md 2>/dev/null
for f in SEED_RESULT/*.rs; do cp $f $OUT/ 2>/dev/null; done
# evaluate against /repo
unset CARGO_TARGET_DIR
cd /verif
git -C /repo apply $OUT/patch.diff || { echo "patch does not apply to /repo"; exit 2; }
RES=""
for p in $PROPS; do
  o=$(VERIF_SEED=${VERIF_SEED:-1} bin/check $p --tier quick 2>&1)
  rc=$?
  nv=$(echo "$o" | grep -c "^VIOLATION")
  first=$(echo "$o" | grep "   violation" | head -2 | cut -c1-260 | tr '\n' '|')
  wall=$(echo "$o" | grep -o "wall [0-9.]*s" | tail -1)
  echo "check $p: exit $rc, $nv VIOLATION line(s), $wall; $first"
  RES="$RES{\"property\":\"$p\",\"exit\":$rc,\"violation_lines\":$nv},"
done
git -C /repo checkout -- .
git -C /repo status --short | head -3
python3 - "$SID" "$WITH" "$WITHOUT" "$SUITE" "[${RES%,}]" "$FEAT" <<'PY'
import json,sys,os
sid,w,wo,suite,res,feat=sys.argv[1:7]
p=f"/verif/seeded/{sid}/meta.json"
old=json.load(open(p)) if os.path.exists(p) else {}
old.update({"seed_id":sid,"demo_exit_codes_with_change":w.strip(),"demo_exit_codes_without_change":wo.strip(),
 "pinned_suite_with_change":suite.strip(),"demo_features":feat,"checks_run":json.loads(res),
 "ran":"bin/seed_eval.sh (demo in both directions + nextest in the agent's worktree; then git -C /repo apply, bin/check <prop> --tier quick, git -C /repo checkout -- .)"})
json.dump(old,open(p,"w"),indent=1)
PY
rm -rf /verif/replays
