#!/usr/bin/env python3
"""Validates MANIFEST.json and evidence/*.json against the schemas (uses the tooling venv)."""
import glob
import json
import sys
import jsonschema

ok = True
try:
    jsonschema.validate(json.load(open('/verif/MANIFEST.json')),
                        json.load(open('/root/.vp/MANIFEST.schema.json')))
    print("MANIFEST.json ok")
except Exception as e:
    ok = False
    print("MANIFEST.json INVALID:", str(e)[:300])
es = json.load(open('/root/.vp/EVIDENCE.schema.json'))
for f in sorted(glob.glob('/verif/evidence/*.json')):
    try:
        jsonschema.validate(json.load(open(f)), es)
        print(f, "ok")
    except Exception as e:
        ok = False
        print(f, "INVALID:", str(e)[:300])
sys.exit(0 if ok else 1)
