#!/usr/bin/env python3
"""Regenerates /verif/MANIFEST.json from bin/props.py (checks) so that both stay consistent."""
import json
import os
import subprocess
import sys

VERIF = os.path.dirname(os.path.dirname(os.path.abspath(__file__)))
sys.path.insert(0, os.path.join(VERIF, "bin"))
from props import PROPS, NOT_APPLICABLE  # noqa: E402

ALL = [f"C{i:02d}" for i in range(1, 21)]


def hook_commits():
    try:
        out = subprocess.run(["git", "-C", "/repo", "log", "--format=%H %s"],
                             stdout=subprocess.PIPE, text=True).stdout
        return [l.split()[0] for l in out.splitlines() if "verif hooks" in l]
    except Exception:
        return []


manifest = {
    "version": 1,
    "setup_cmd": "cd /verif/harness && (test -f Cargo.lock || cp /repo/Cargo.lock Cargo.lock) && "
                 "CARGO_NET_OFFLINE=true cargo build --release --offline",
    "hooks": {
        "guard": "cargo feature verif_hooks (flexi_logger/Cargo.toml [features] verif_hooks = [])",
        "enable": "harness/Cargo.toml depends on flexi_logger (path=/repo) with features "
                  "[verif_hooks, async, compress, json, kv, syslog_writer, specfile, buffer_writer]; "
                  "every check rebuilds the harness (cargo build --release --offline) first",
        "baseline_off_cmd": "cd /repo && (cargo nextest run --workspace --no-fail-fast "
                            "--test-threads 8 --offline || cargo test --workspace --no-fail-fast "
                            "--offline)",
        "source_commits": hook_commits(),
        "add_only": True,
    },
    "engines": [
        {"name": "flmon", "path": "/verif/harness",
         "serves_properties": [p for p in ALL if p in PROPS],
         "kind_free_text": "Rust harness driving the real crate (FileLogWriter / Logger::build / "
                           "child processes) with seeded workloads under a virtual clock, fault, "
                           "crash and schedule controllers; per-property oracles over observed "
                           "files, recorded deliveries, return values and captured streams"},
        {"name": "bin/check", "path": "/verif/bin/check",
         "serves_properties": [p for p in ALL if p in PROPS],
         "kind_free_text": "python orchestrator: build, shard, watchdog, aggregate, known findings, "
                           "evidence, replay files"},
    ],
    "checks": [],
    "notes": "See DESIGN.md. Exit 0 = held on everything explored (KNOWN-FINDING lines allowed), "
             "1 = VIOLATION, 2 = inconclusive/build failure (claims nothing). "
             "Replay: /verif/harness/target/release/flmon replay <file>.",
    "not_applicable": [],
}
for pid in ALL:
    if pid in PROPS:
        p = PROPS[pid]
        manifest["checks"].append({
            "property_id": pid,
            "quick_cmd": f"bin/check {pid} --tier quick",
            "thorough_cmd": f"bin/check {pid} --tier thorough",
            "evidence_file": f"/verif/evidence/{pid}.json",
            "replay_cmd_template": "harness/target/release/flmon replay {path}",
            "engine": "flmon",
            "level_claimed": {
                "category": p["level"],
                "text": p["level_text"],
                "design_ref": p.get("design_ref", f"DESIGN.md §5 {pid}"),
            },
            "level_note": p["level_note"],
            "technique": p["technique"],
        })
    else:
        manifest["not_applicable"].append({
            "property_id": pid,
            "reason": NOT_APPLICABLE.get(pid, "monitor not built yet (work in progress); "
                                              "no claim is made for this property"),
        })
with open(os.path.join(VERIF, "MANIFEST.json"), "w") as f:
    json.dump(manifest, f, indent=1)
    f.write("\n")
print("MANIFEST.json:", len(manifest["checks"]), "checks,", len(manifest["not_applicable"]),
      "not applicable")
