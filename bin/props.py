"""Per-property run configuration for bin/check (shards, case caps, time boxes, floors) and the
static parts of the evidence (level, rule, assumptions)."""

COMMON_ASSUMPTIONS = [
    "the oracle decides only the executions this run produced (seeded generators; see coverage)",
    "flexi_logger is built from /repo's working tree with feature verif_hooks (virtual clock, "
    "creation-time table, fs/schedule points) plus all optional features; hooks are add-only",
    "the harness' reference models (family parser, partition/stack/routing models) are written "
    "from the documentation and are the trusted base of the comparison",
    "file system = tmpfs (/dev/shm) or /tmp of this sandbox; Linux only",
]


def box(shards, cases, secs, **kw):
    d = {"shards": shards, "cases": cases, "secs": secs}
    d.update(kw)
    return d


NOT_APPLICABLE = {}

PROPS = {
    "C01": {
        "level": "exploration",
        "technique": "runtime monitoring: byte-exact stream oracle over seeded single-thread "
                     "histories of the real FileLogWriter/Logger under a virtual and the real clock",
        "level_text": "Held on the executions explored: after every flush and after shutdown/drop "
                      "the concatenation of the family files (independent family parser, "
                      "chronological order) is compared byte for byte with the accepted records' "
                      "lines; thousands of (configuration x history) cases per run. Exploration, "
                      "not proof: it decides the sampled configurations and histories only.",
        "level_note": "Trusted: the harness' family parser/ordering (written from the docs), the "
                      "generator's own knowledge of what its format function prints, the virtual "
                      "clock hook. Not covered: asynchronous mode (C03/C15), cleanup (C07).",
        "rule": "cases = seeded (configuration x operation history) pairs, PRNG state derived from "
                "(VERIF_SEED, property, shard, case); a case is non-trivial iff at least one "
                "rotation happened and at least one byte-exact stream comparison was evaluated; "
                "distinct = distinct shape keys (driver level, naming, criterion kind, write-mode "
                "kind, line ending, name-part mask, clock kind, format, rotation bucket, saw "
                ".restart-, saw trigger) among non-trivial cases",
        "assumptions": COMMON_ASSUMPTIONS + [
            "single logging thread, synchronous write modes, Cleanup::Never (as in the statement)",
        ],
        "quick": box(16, 1500, 25, floor_evaluations=200, floor_shapes=20),
        "thorough": box(16, 48000, 420, floor_evaluations=2000, floor_shapes=50),
    },
    "C08": {
        "level": "exploration",
        "technique": "runtime monitoring: exact rotation-partition model (size > N checked before "
                     "each write, seeded from the existing file on append) vs. observed file "
                     "contents in rotation order",
        "level_text": "Held on the executions explored: for seeded sequences of line lengths around "
                      "the limit (0, 1, N-1, N, N+1, 5N; LF/CRLF), N from 0 to 1000, all naming "
                      "schemes, sync modes with buffer capacities below/at/above N and async mode, "
                      "fresh and append-to-existing starts, the observed partition of the records "
                      "into files equals the model's partition exactly (after every flush and "
                      "after shutdown). Exploration of sampled inputs, not proof.",
        "level_note": "Trusted: the 15-line partition model, the family parser, the virtual clock "
                      "(frozen, so the age part of AgeOrSize stays inactive).",
        "rule": "cases = seeded (N, naming, write mode, line ending, start state, length sequence); "
                "non-trivial iff at least one rotation was caused by the size criterion and at "
                "least one partition comparison was evaluated; distinct = distinct shape keys "
                "(driver level, naming, criterion kind, N, write-mode kind, line ending, start "
                "state, rotation bucket)",
        "assumptions": COMMON_ASSUMPTIONS,
        "quick": box(16, 1500, 25, floor_evaluations=200, floor_shapes=20),
        "thorough": box(16, 15000, 420, floor_evaluations=2000, floor_shapes=50),
    },
    "C06": {
        "level": "exploration",
        "technique": "runtime monitoring: persistent segment model across restarts (append on/off, "
                     "all namings, cleanup incl. compression, same-second restarts, mutated "
                     "directories) vs. observed (decompressed) file contents + name->content "
                     "history monitor",
        "level_text": "Held on the executions explored: after every run of a seeded multi-run "
                      "history the ordered list of (gunzipped) file contents equals the model "
                      "(everything ever written minus the documented truncation), with a cleanup "
                      "strategy a contiguous newest tail at least as long as the limits permit; no "
                      "rotated file name ever re-appears with content that does not extend what it "
                      "held. Exploration of sampled histories, not proof.",
        "level_note": "Trusted: segment model (Appendix B), family parser, virtual clock + "
                      "creation-time table. 'Current file removed' is only generated where the "
                      "resulting starting state is well defined (not for direct namings with "
                      "cleanup).",
        "rule": "cases = seeded histories of 2-6 runs (writes/rotations, stop, clock step, optional "
                "directory mutation, restart with append on/off); non-trivial iff at least one "
                "restart happened, at least 2 records were logged and at least 2 comparisons "
                "evaluated; distinct = shape keys (driver level, naming, criterion, cleanup, write "
                "mode, time zone, use_utc, same-second restart seen, mutation seen, rotation bucket)",
        "assumptions": COMMON_ASSUMPTIONS + ["time zones: UTC, Asia/Kolkata, America/Caracas, "
                                             "Asia/Kathmandu (fixed offsets), chosen per shard"],
        "quick": box(16, 1500, 25, floor_evaluations=200, floor_shapes=20),
        "thorough": box(16, 72000, 420, floor_evaluations=2000, floor_shapes=50),
    },
    "C07": {
        "adjuncts": [("miri", "c07bg", 32)],
        "level": "exploration",
        "technique": "runtime monitoring: survivor-set oracle (limits, contiguous newest tail of the "
                     "logged stream, gzip round trip, current file spared) after each rotation "
                     "(sync cleanup) or after shutdown (background / async-writer cleanup, with "
                     "scheduling noise at the cleanup hook points); thread-parking schedule controller "
                     "walking the interleavings of rotation steps and cleanup-thread steps depth-first",
        "level_text": "Held on the executions explored: for seeded histories of writes, rotations "
                      "(incl. several per virtual second) and restarts under KeepLogFiles / "
                      "KeepCompressedFiles / KeepLogAndCompressedFiles (limits 0..5), all namings, "
                      "suffixes sorting before/after 'restart' and none, the surviving files are "
                      "within the limits, form the newest contiguous tail of the logged stream, "
                      "every .gz decodes to its segment, compressed files are the older ones, the "
                      "current file is plain and present. Background-thread interleavings are "
                      "sampled with noise and, for small configurations (0-4 earlier rotations, then "
                      "1-3 rotations under control), executed one by one: logging thread parked "
                      "between operations, before the rename and before the open of a rotation, "
                      "cleanup thread parked at act/list/remove/gz_create/gz_remove_src/done; the "
                      "choice tree is walked depth-first until exhausted or capped (then seeded "
                      "random schedules); evidence counts configurations, executions and exhausted trees.",
        "level_note": "Trusted: never-trimming segment model + survivor bounds (Appendix C: lower "
                      "bound min(R,k+m) minus one for direct namings), family parser. Async mode: "
                      "size criterion only and no explicit rotations (their ordering is C15's).",
        "rule": "cases = seeded (configuration x history); non-trivial iff more rotated segments "
                "were produced than the limits keep (so cleanup had to act) and at least one "
                "survivor comparison was evaluated; distinct = shape keys (driver level, naming, "
                "strategy with limits bucketed, suffix class, thread that runs the cleanup, "
                "criterion, same-second files seen, restart seen)",
        "assumptions": COMMON_ASSUMPTIONS,
        "quick": box(16, 1200, 25, floor_evaluations=200, floor_shapes=20),
        "thorough": box(16, 40000, 420, floor_evaluations=2000, floor_shapes=50),
    },
    "C09": {
        "level": "exploration",
        "technique": "runtime monitoring: virtual clock + creation-time table; period-partition model "
                     "and infix oracle over write instants straddling second/minute/hour/day/month/"
                     "year boundaries in four time zones; real-time Age::Second cross-check without "
                     "the clock hook",
        "level_text": "Held on the executions explored: the observed partition of the records into "
                      "files equals the model's (rotation exactly at the first write in a later "
                      "period, age-or-size combined), and every timestamp-named file carries the "
                      "instant at which its content was started; append-restarts continue or rotate "
                      "according to the current file's period. The real-time run checks the "
                      "file-metadata path: no file holds unambiguous records of two seconds, no "
                      "rotation between neighbouring records of one second.",
        "level_note": "Trusted: partition model, family parser, the hooks (every Local::now() of the "
                      "file writer and the creation-time lookup). DST gaps are outside the sampled "
                      "space (fixed-offset zones).",
        "rule": "cases = seeded (Age, naming, write mode, use_utc, history of writes / clock steps / "
                "flushes / triggers / append-restarts) starting near a period boundary; non-trivial "
                "iff at least one rotation was caused by the criterion and at least one partition "
                "comparison evaluated (real-time case: >= 3 files and >= 10 same-second pairs "
                "judged); distinct = shape keys (driver level, naming, criterion, write mode, zone "
                "offset, utc/local, append-restart seen, rotation bucket)",
        "assumptions": COMMON_ASSUMPTIONS + ["time zones: UTC, Asia/Kolkata, America/Caracas, "
                                             "Asia/Kathmandu (fixed offsets), chosen per shard"],
        "quick": box(16, 1500, 25, floor_evaluations=200, floor_shapes=20),
        "thorough": box(16, 120000, 420, floor_evaluations=2000, floor_shapes=50),
    },
    "C15": {
        "level": "exploration",
        "technique": "runtime monitoring: differential oracle across write modes (Direct as "
                     "reference vs. buffered / flusher / async with slowed writer thread) over "
                     "record histories and raw io::Write chunk sequences incl. all 256 one-byte chunks",
        "level_text": "Held on the executions explored (the three findings that were listed as known for a while are repaired - fixes 1587999, a6863d3): the "
                      "same seeded sequence of records and operations is executed once per write "
                      "mode under a frozen virtual clock and the ordered (name, content) lists "
                      "after shutdown are compared; raw chunk sequences through ArcFileLogWriter: "
                      "io::Write are compared with their own concatenation and across modes.",
        "level_note": "Trusted: Direct mode as reference (itself tied to the models by C01/C08), "
                      "family parser. Size criterion only (schedule independent).",
        "rule": "cases alternate between record histories and chunk sequences; each is run under 4 "
                "write modes; non-trivial iff at least two mode comparisons were evaluated (and at "
                "least one file exists); distinct = shape keys (kind, driver level, naming, rotation "
                "on/off, line ending, format, slowed async writer, trigger present, one-byte window, "
                "file-count bucket)",
        "assumptions": COMMON_ASSUMPTIONS,
        "quick": box(16, 400, 25, floor_evaluations=200, floor_shapes=20),
        "thorough": box(16, 8000, 420, floor_evaluations=2000, floor_shapes=50),
    },
    "C02": {
        "level": "exploration",
        "technique": "runtime monitoring: reference prefix-matcher + computable text-filter "
                     "sub-language vs. recording LogWriter / LogLineFilter / additional writers, "
                     "Log::enabled() and log::max_level() over a level x target x message grid",
        "level_text": "Held on the executions explored: for seeded specifications (builder and "
                      "string route; prefix chains, level words as names, off entries, with/without "
                      "default and regex) every grid point (5 levels x targets derived from the "
                      "spec's names x hitting/missing messages) is logged through the real logger "
                      "with the macro gate emulated exactly; delivery, enabled() and the max-level "
                      "admission (also for additional writers' ceilings) are compared with the model.",
        "level_note": "Trusted: the 20-line matcher, the regex sub-language (escaped literal, ^lit, "
                      "lit$, a|b), the emulation of the log macros' gate (level <= max_level()). "
                      "Records are handed to Log::log directly (Logger::build), not through a "
                      "globally installed logger.",
        "rule": "cases = seeded specifications; non-trivial iff the grid contains both enabled and "
                "disabled points; distinct = shape keys (route, observer kind, number of names, "
                "default present, text filter present, number of additional writers)",
        "assumptions": COMMON_ASSUMPTIONS,
        "quick": box(16, 4000, 25, floor_evaluations=500, floor_shapes=20),
        "thorough": box(16, 240000, 420, floor_evaluations=5000, floor_shapes=40),
    },
    "C05": {
        "level": "exploration",
        "technique": "runtime monitoring: specification stack-machine model vs. delivery / enabled() "
                     "/ max_level grid after every reconfiguration operation, with a final drain of "
                     "pops",
        "level_text": "Held on the executions explored: seeded histories of the five reconfiguration "
                      "operations (well-formed and malformed strings, nested pushes, pops on an "
                      "empty stack, with/without text filter); after each operation and after each "
                      "pop of a final drain the C02 grid is compared with the model's active spec.",
        "level_note": "Trusted: stack machine (15 lines) + C02's matcher. Malformed strings are "
                      "drawn from a fixed list of clearly malformed inputs (C17 decides the parser).",
        "rule": "cases = seeded operation histories (1-40 ops); non-trivial iff >= 2 operations and "
                ">= 2 comparisons; distinct = (length bucket, max stack depth, malformed string "
                "seen, pop on empty stack seen)",
        "assumptions": COMMON_ASSUMPTIONS,
        "quick": box(16, 1500, 25, floor_evaluations=200, floor_shapes=10),
        "thorough": box(16, 72000, 420, floor_evaluations=2000, floor_shapes=20),
    },
    "C12": {
        "level": "exploration",
        "adjuncts": [("miri", "c12", 48)],
        "exhaustive": False,
        "technique": "runtime monitoring with a deterministic interleaving controller: threads parked "
                     "at spec_enter / spec_updated / spec_exit, all merge orders of the two internal "
                     "steps of 2 concurrent calls (20 executions per tuple; 3 calls: 1680, all in "
                     "the thorough tier for a third of the tuples, sampled otherwise) plus "
                     "noise-driven uncontrolled runs",
        "level_text": "Held on the executions explored: for seeded tuples of 2-3 concurrent "
                      "set/parse/push/pop calls with different maximum levels, every schedule at "
                      "hook granularity is executed against the real LoggerHandle clones; afterwards "
                      "the enable grid must equal one submitted specification as a whole and "
                      "log::max_level() must admit everything it enables. Exhaustive only at hook "
                      "granularity per tuple; the tuples themselves are sampled.",
        "level_note": "Trusted: schedule controller (a thread that blocks on the specification lock "
                      "instead of parking is detected by a 10 ms bound and skipped, so atomic "
                      "implementations are explored by the orders they permit), C02's matcher.",
        "rule": "cases = seeded tuples of concurrent calls; each case executes its schedules (2 "
                "calls: all 20); non-trivial iff at least one execution ran; distinct = (number of "
                "threads, call kinds, controlled/stress); executed_orders counts the distinct "
                "observed park sequences",
        "assumptions": COMMON_ASSUMPTIONS,
        "quick": box(16, 40, 25, floor_evaluations=60, floor_shapes=8, grace=240),
        "thorough": box(16, 1200, 480, floor_evaluations=300, floor_shapes=12, grace=600),
    },
    "C17": {
        "level": "exploration",
        "technique": "runtime monitoring: round-trip decision equivalence (Display, TOML) on a grid + "
                     "reference parser written from the documented BNF with an explicit "
                     "'unspecified' class, over structured specs, alphabet strings and arbitrary "
                     "Unicode",
        "level_text": "Held on the inputs explored: Display/TOML round trips decide identically on "
                      "every grid point; parse() never panics; Ok/Err equals the reference verdict "
                      "and the specification carried by the error decides like the well-formed "
                      "remainder (none if the '/' structure is malformed); the text filter equals "
                      "the given regex iff it is valid.",
        "level_note": "Trusted: reference parser (60 lines, from the BNF in the LogSpecification "
                      "docs), regex crate for regex validity. Inputs on which the docs are silent "
                      "(empty name/level around '=', duplicates, empty parts, numbers as levels) are "
                      "classed unspecified: only 'no panic' is asserted; they are counted separately.",
        "rule": "cases cycle through display round trip, TOML round trip, alphabet/damaged strings, "
                "Unicode strings; non-trivial iff specified by the docs (and for round trips: a "
                "non-empty spec); distinct = (form or string kind, class, well-/malformed, entries)",
        "assumptions": COMMON_ASSUMPTIONS,
        "quick": box(16, 20000, 25, floor_evaluations=5000, floor_shapes=15),
        "thorough": box(16, 1000000, 420, floor_evaluations=100000, floor_shapes=20),
    },
    "C18": {
        "level": "exploration",
        "technique": "runtime monitoring: segment-ownership model over histories interleaving "
                     "writes, flushes, rotations, external rename/remove + reopen_output and "
                     "reset_flw; exact per-family partition and renamed-file comparison after shutdown",
        "level_text": "Held on the executions explored: every externally renamed file holds exactly "
                      "the records logged before its rename (incl. the unflushed buffered tail), "
                      "the file at the original path exactly those after reopen_output(); after "
                      "reset_flw the old family holds everything before and the new one everything "
                      "after; nothing lost, duplicated or reordered (Direct/BufferDontFlush/"
                      "BufferAndFlush, with/without size rotation, L1 and L2).",
        "level_note": "Trusted: partition model + family parser. reopen_output is issued directly "
                      "after the external rename/remove (what happens to writes in between is not "
                      "stated by the property). Families use names that are not prefixes of each "
                      "other (cross-family listing is C14's business).",
        "rule": "cases = seeded histories; non-trivial iff at least one reopen or reset happened and "
                ">= 2 records were logged; distinct = (driver level, write mode, line ending, format, "
                "rename seen, remove seen, number of resets bucket, rotation involved)",
        "assumptions": COMMON_ASSUMPTIONS,
        "quick": box(16, 1500, 25, floor_evaluations=200, floor_shapes=20),
        "thorough": box(16, 90000, 420, floor_evaluations=2000, floor_shapes=40),
    },
    "C14": {
        "level": "exploration",
        "technique": "runtime monitoring: differential oracle (same seeded run in a clean and in a "
                     "polluted directory under the virtual clock) + before/after snapshot of the "
                     "foreign files (bytes, inode, mtime, mode, existence) + offline check of strace "
                     "logs of child runs (no successful mutating system call names a foreign path)",
        "level_text": "Held on the executions explored: for 14 classes of near-miss names derived "
                      "from the family language (each verified foreign by the independent parser), "
                      "all namings, cleanup strategies incl. compression, histories with rotations "
                      "and restarts: no foreign file changes in any observable way, and family "
                      "files, existing_log_files results (5 selectors, queried every 4 ops) and "
                      "operation results are identical to the clean run; no panic.",
        "level_note": "Trusted: family parser (decides what is foreign), virtual clock (identical "
                      "names in both runs). One near-miss class per case so that a violation is "
                      "attributable.",
        "rule": "cases = seeded (naming, name parts, cleanup, criterion, near-miss class, history) "
                "pairs of runs; non-trivial iff at least one foreign file exists and at least 2 "
                "family files were produced; distinct = (naming, cleanup, class, name-part mask)",
        "assumptions": COMMON_ASSUMPTIONS,
        "quick": box(16, 1500, 25, floor_evaluations=200, floor_shapes=20),
        "thorough": box(16, 60000, 420, floor_evaluations=2000, floor_shapes=50),
    },
    "C16": {
        "level": "exploration",
        "technique": "runtime monitoring: documented name composition and selector semantics "
                     "evaluated against the directory after every operation (re-queried after "
                     "virtual clock steps), symlink target vs. the file holding the latest record, "
                     "FileSpec::try_from round trip with a logger built from it",
        "level_text": "Held on the executions explored: every file created is in the configured "
                      "directory and parses as [basename][_discr][_starttime][_infix][.suffix] "
                      "(start time stable while the clock advances); existing_log_files equals the "
                      "directory for 7 selector combinations at every step; read_link(symlink) "
                      "resolves to the file that received the latest record; try_from(p) denotes p "
                      "(up to a leading './') and a logger built from it writes there, for relative "
                      "(own cwd) and absolute paths.",
        "level_note": "Trusted: family parser / selector semantics from the docs. Not judged: "
                      "LogfileSelector::none() without rotation, queries before the first write of "
                      "a run (lazy file creation), restarts when the start-time part is used (a new "
                      "logger legitimately has a new start time).",
        "rule": "3 of 4 cases are naming/listing/symlink histories (equivalent builder call sequences per case), 1 of 4 a try_from path (without and with rotation + listing); every 32nd case is a DST child; "
                "non-trivial iff at least one listing query (or the try_from path) was evaluated; "
                "distinct = (driver level, naming, name-part mask, cleanup, symlink, clock advanced) "
                "resp. (absolute/relative, path shape)",
        "assumptions": COMMON_ASSUMPTIONS + ["the try_from cases change the process' working "
                                             "directory (cases of a shard run sequentially)"],
        "quick": box(16, 1500, 25, floor_evaluations=200, floor_shapes=20),
        "thorough": box(16, 60000, 420, floor_evaluations=2000, floor_shapes=50),
    },
    "C13": {
        "level": "exploration",
        "technique": "runtime monitoring: routing model vs. recording writers, a FileLogWriter with "
                     "max_level (file content), a SyslogWriter on a unix datagram socket bound by "
                     "the harness, the error-channel file, and captured stderr/stdout of child "
                     "processes for duplication incl. adapt_duplication_to_* mid-history",
        "level_text": "Held on the executions explored: for seeded brace lists (sets over registered "
                      "names A,B,C,F,S, unknown X,Y and _Default, any order/length) x levels x "
                      "specifications x ceilings: every named registered writer gets the record "
                      "exactly once, unnamed ones nothing, the default channel iff _Default is "
                      "listed and the spec enables the module path; FileLogWriter/SyslogWriter emit "
                      "nothing above their ceiling; unknown names are reported on the error channel "
                      "and nothing else is; child runs: stderr/stdout duplicates and the file hold "
                      "exactly the records the thresholds in force admit.",
        "level_note": "Trusted: routing model, C02 matcher, unique-id messages. Lists naming a "
                      "writer twice and empty lists are not generated (undefined by the statement; "
                      "C10 covers them for panics). Custom writers' own ceilings are not judged.",
        "rule": "5 of 6 cases are in-process routing histories (5-40 records), 1 of 6 a duplication "
                "child; non-trivial iff at least one brace-target record was routed (child: at "
                "least one record reached the file); distinct = (kind, file ceiling, syslog "
                "on/ceiling/header) resp. (dup thresholds, spec level)",
        "assumptions": COMMON_ASSUMPTIONS + ["syslog: unix datagram sockets only (no TCP/UDP, no "
                                             "real daemon)"],
        "quick": box(16, 600, 25, floor_evaluations=200, floor_shapes=20),
        "thorough": box(16, 20000, 420, floor_evaluations=2000, floor_shapes=40),
    },
    "C20": {
        "level": "exploration",
        "technique": "runtime monitoring: independent layouts of the provided format functions "
                     "(exact timestamp text from the virtual clock), serde_json decode of the JSON "
                     "format, byte-exact framing parse of files / captured stderr+stdout, auto-tick "
                     "clock for the single-timestamp rule, real recursion through Display",
        "level_text": "Held on the executions explored: every record in every output is exactly "
                      "format output + one configured line ending (files: LF/CRLF; std streams: one "
                      "ending); default/opt/detailed/with_thread (+ coloured variants after "
                      "stripping ANSI, + key-values) render level, location and message verbatim for "
                      "hostile texts; the JSON line is valid single-line JSON whose fields decode to "
                      "the same values; file, writer, additional file, stderr and stdout duplicates "
                      "of one record carry the same timestamp, inside the log call (auto-tick); "
                      "recursive logging from a Display implementation yields the inner lines first, "
                      "each correctly framed (in-process and via the global logger in children).",
        "level_note": "Trusted: the layouts written from the docs of each format function, "
                      "serde_json, the clock hook in DeferredNow. Coloured formats: messages contain "
                      "no ESC so stripping is lossless; which parts are coloured is not judged.",
        "rule": "7 of 8 cases are in-process (1-20 records x up to 3 outputs), 1 of 8 a child "
                "(stderr/stdout primary in Direct/Buffered/Async/SupportCapture mode, file with "
                "duplicates, real macros in Display); non-trivial iff at least one record was "
                "judged; distinct = (driver level, formats per output, line ending, write mode, "
                "clock kind, recursion) resp. (primary kind, std mode, recursion, formats)",
        "assumptions": COMMON_ASSUMPTIONS + ["time zones: UTC, Asia/Kolkata, America/Caracas, "
                                             "Asia/Kathmandu per shard"],
        "quick": box(16, 1500, 25, floor_evaluations=200, floor_shapes=20),
        "thorough": box(16, 150000, 420, floor_evaluations=2000, floor_shapes=50),
    },
    "C03": {
        "level": "exploration",
        "adjuncts": [("miri", "c03", 48), ("tsan", ["c03", "c12", "c04flush", "c07bg"], 6)],
        "technique": "runtime monitoring: offline exactly-once / intactness / per-thread-order "
                     "checker over unique-id records logged by 2-8 real threads (files through "
                     "hundreds of rotations, captured stdout/stderr of children), seeded scheduling "
                     "noise at the hook points; distinct thread-order fingerprints reported",
        "level_text": "Held on the executions explored: every line of the merged output parses to "
                      "an intact id+payload, the multiset equals the records whose log call "
                      "returned, per-thread sequence numbers are monotone; Direct/Buffered/flusher/"
                      "Async (small pool and message capacity) x all namings with size rotation x "
                      "cleanup threads active x stdout/stderr writers (Unbuffered, Buffered, Async, "
                      "SupportCapture; real macros). Interleavings are sampled (OS scheduler + "
                      "noise), not enumerated; the number of distinct fingerprints is the measure.",
        "level_note": "Trusted: the id/payload scheme (payload is a pure function of the id), the "
                      "family parser's chronological order. No order is required between threads.",
        "rule": "7 of 8 cases log to files in-process (every 4th with a format that refuses sprinkled records, every 16th a file + stderr duplicate whose format refuses), 1 of 8 to stdout/stderr in a child; every "
                "case is non-trivial (>= 2 threads x >= 50 records); distinct = (output, driver "
                "level, naming, write mode, threads, cleanup, noise) resp. (stream, std mode, "
                "threads, noise)",
        "assumptions": COMMON_ASSUMPTIONS + ["real clock (timestamps in names are real time)"],
        "quick": box(16, 200, 25, floor_evaluations=100, floor_shapes=20),
        "thorough": box(16, 6000, 480, floor_evaluations=1000, floor_shapes=50),
    },
    "C04": {
        "level": "exploration",
        "adjuncts": [("miri", "c04", 32), ("miri", "c04flush", 32)],
        "technique": "runtime monitoring: read-immediately-after-return presence/order oracle over "
                     "unique-id records for flush / shutdown / last-drop / clone-drop-then-continue, "
                     "async writer thread slowed at async_recv, a persisting-on-flush writer, and "
                     "children that _exit(0) right after the operation (stdout/stderr)",
        "level_text": "Held on the executions explored: directly after shutdown() returned or the "
                      "last handle was dropped (sync buffered modes: also after flush()) every "
                      "record whose log call had completed (joined producer threads = "
                      "happens-before) is in the file(s) / persisted by the writer / in the "
                      "captured stream, in order; after dropping one clone further records still "
                      "arrive. All write modes incl. flusher intervals 1 ms / 1 s, volumes "
                      "below/at/above the buffer capacity, with and without rotation.",
        "level_note": "Trusted: id scheme, family parser. flush() in asynchronous mode is "
                      "fire-and-forget by design and not asserted; records logged after shutdown "
                      "are not expected anywhere.",
        "rule": "7 of 8 cases in-process (Logger::build, LoggerHandle), 1 of 8 a child with "
                "stdout/stderr; non-trivial iff the ending operation is asserted for the mode; "
                "distinct = (output, write mode, ending op, volume buckets, threads, slowed writer)",
        "assumptions": COMMON_ASSUMPTIONS,
        "quick": box(16, 600, 25, floor_evaluations=200, floor_shapes=20),
        "thorough": box(16, 12000, 420, floor_evaluations=2000, floor_shapes=50),
    },
    "C10": {
        "level": "exploration",
        "technique": "runtime monitoring: structured hostile generators (brace/multi-byte targets, "
                     "absent record fields, specification strings, FileSpec parts, odd custom "
                     "timestamp formats, pre-populated directories, directory removal, every handle "
                     "operation, recursive logging per writer kind in children) under a panic hook + "
                     "catch_unwind per call + child exit status + progress watchdog + sentinel record",
        "level_text": "Held on the executions explored: no call into the crate panicked (hook "
                      "records thread, location, message from any thread), no child died or stopped "
                      "making progress (8 s bound, confirmed by an immediate re-run), and the "
                      "sentinel record logged after the hostile steps is in the output (logging "
                      "continues). Error results at configuration time and error-channel lines at "
                      "run time are accepted.",
        "level_note": "Documented panics are not provoked (try_from without file name, invalid "
                      "strftime, force_utc too late, broken error channel with panic flag). Not "
                      "generated, with reasons in DESIGN.md: suffixes equal to the crate's reserved "
                      "extensions (gz, restart-NNNN) and the empty-string suffix, indexes beyond "
                      "99 999; for timestamp formats that chrono cannot parse back, that contain a "
                      "dot, or whose lexical order is not chronological (%A, %s) only 'no panic' is "
                      "asserted, not where records end up.",
        "rule": "cases cycle through 5 kinds: targets (2/8), FileSpec/naming/directory content "
                "(3/8), directory removed and re-created (1/8), specification strings (1/8), "
                "recursion child per primary writer kind (1/8, 11 kinds); non-trivial iff at least "
                "one API call was made under the oracle; distinct = shape keys per kind",
        "assumptions": COMMON_ASSUMPTIONS,
        "quick": box(16, 800, 25, floor_evaluations=200, floor_shapes=20),
        "thorough": box(16, 200000, 480, floor_evaluations=2000, floor_shapes=40),
    },
    "C11": {
        "level": "fault_enumeration",
        "technique": "runtime monitoring with crash injection: a child process runs a scripted "
                     "Direct-mode history and is terminated (_exit, no unwinding, no flush) "
                     "immediately before the n-th file-system effect (hook points at write, rename, "
                     "create/open, symlink replace, each cleanup removal, gz create/open/copy/finish/"
                     "remove) and by SIGKILL at random instants; independently of the hooks, by SIGKILL "
                     "delivered by strace at the entry of the n-th rename/unlink/symlink/openat/write "
                     "that names the log directory; acknowledged ids vs. files; then a "
                     "second child restarts a logger on the same directory",
        "level_text": "Held on the executions explored: for every crash point tried, every record "
                      "whose log call had returned (ack written after the call) is in the files "
                      "exactly once and in order (or removed as an oldest prefix by the cleanup "
                      "limit); at most the in-flight record is additionally present (partial only "
                      "after SIGKILL); a plain file and its .gz twin may coexist; the restarted "
                      "logger exits 0 with an empty error channel and afterwards the directory holds "
                      "(surviving earlier records) ++ (new records), nothing duplicated or reordered. "
                      "Crash points of a history are enumerated exhaustively for half of the "
                      "histories in the thorough tier, sampled (10 per history) in the quick tier.",
        "level_note": "Trusted: the ack protocol (call/ack lines appended by the child around each "
                      "log call), the hook placement 'immediately before each effect', the family "
                      "parser. Synchronous cleanup (cleanup_in_background_thread(false)) makes the "
                      "point numbering of a history deterministic. Kills inside a syscall are only "
                      "sampled (SIGKILL); power loss is out of scope. The restarted child registers "
                      "the virtual birth time of the files it finds (the table does not survive a "
                      "process).",
        "rule": "cases = seeded (configuration, history); per case: 1 trace run, then crash runs at "
                "sampled or all fs points, each followed by a restart run, then SIGKILL runs; "
                "non-trivial iff at least one crash run was judged; distinct = (driver level, naming, "
                "cleanup, symlink, restart append); crash_points_executed lists the point kinds hit",
        "assumptions": COMMON_ASSUMPTIONS + ["children: ~2 ms per spawn"],
        "quick": box(16, 30, 25, floor_evaluations=40, floor_shapes=10, grace=240),
        "thorough": box(16, 600, 480, floor_evaluations=200, floor_shapes=20, grace=600),
    },
    "C19": {
        "level": "fault_enumeration",
        "technique": "runtime monitoring with fault injection: the fs-point trace of a history is "
                     "recorded, then the history is re-run once per (point kind, occurrence) with an "
                     "injected io::Error returned instead of the call (single failures and bursts of "
                     "2-5), per-call attribution of injected faults and error-channel lines; real "
                     "faults without hooks: rotation target blocked by a non-empty directory, "
                     "RLIMIT_FSIZE (EFBIG) in a child, and errno injection by strace into the n-th "
                     "write/openat/rename/unlink on the log directory of a child history, with the "
                     "strace log as the event record that attributes each failure to an operation",
        "level_text": "Held on the executions explored: every log call returned (no panic); a record "
                      "is missing only if an injected error hit its own write or the (re-)"
                      "initialisation in its own call, and each such call left at least one ERRCODE "
                      "line on the error channel; a failed rotation (rename/open) is reported and "
                      "loses nothing; flush/cleanup/compression faults lose nothing; the stream stays "
                      "duplicate-free and ordered; after the faults stop all further records arrive "
                      "and rotation resumes (file count grows). Enumeration over the (point, "
                      "occurrence) pairs of a history is exhaustive for half of the histories in the "
                      "thorough tier, sampled (14 plans) in quick.",
        "level_note": "Trusted: hook placement (error returned at the place where the real call "
                      "would return it), per-call attribution via the injected-fault log, family "
                      "parser. Buffered mode: records logged since the last successful flush count "
                      "as 'own write' of a failing BufWriter write. read_dir cannot be failed by the "
                      "hook (the call site has no error path); its real failure (directory removed) "
                      "is C10's directory case. Error kinds: PermissionDenied, Other, StorageFull, "
                      "Interrupted, NotFound (NotFound at rename is 'nothing to rename' by design and "
                      "replaced).",
        "rule": "8 of 10 cases are hook-fault histories (1 trace + N fault plans each), 1 of 10 the "
                "blocked-rotation-target real fault, 1 of 10 the RLIMIT_FSIZE child; non-trivial iff "
                "at least one fault plan (or real-fault run) was executed; distinct = (driver level, "
                "naming, cleanup, write mode) resp. real-fault kind",
        "assumptions": COMMON_ASSUMPTIONS,
        "quick": box(16, 60, 25, floor_evaluations=60, floor_shapes=10),
        "thorough": box(16, 1500, 480, floor_evaluations=400, floor_shapes=20),
    },
}


# scenario families added while the checks were strengthened against seeded changes (DESIGN 0.2, 0.5)
RULE_ADDENDA = {
    "C01": "per-case equivalent builder call sequences; reopen_output() with the file in place is one of the operations; an eighth of the virtual-clock cases sets the clock back between operations; those are judged as a multiset of lines (names are not chronological then)",
    "C02": "lists with several addressees in every order and with _Default, each preceded by an enabled() query; a text-filter-only run-time change",
    "C03": "every 4th file case uses a format that refuses sprinkled records; every 16th case is a file + stderr duplicate whose format refuses",
    "C04": "a third of the in-process cases route records to an additional file writer; endings include two concurrent shutdowns; 1 of 8 cases is flush() while 1-4 other threads log; every 16th case: 40 (thorough 120) small loggers whose only two handle clones are dropped by two threads behind a spin barrier, file read while the logger object is alive; ending ConcurrentDropLast in the ordinary cases",
    "C06": "every 16th case is a DST child (history in one pass of the repeated hour vs. the same history a week later, 4 zones, optional file from the skipped hour, listing against the directory); empty discriminant among the name parts",
    "C07": "background-cleanup cases hold the logging thread back between rename and writer swap; judged only now and then; every 48th case (thorough: half the cases of shards 8-15) is a controlled-schedule configuration (shape prefix sched|, non-trivial iff a step of one thread ran inside the other's rotation / work list); beyond the DFS cap the seeded schedules take turns in phases of random length (few context switches); a third of the quick configurations has room for three rotations",
    "C08": "reopen_output() with the file in place is one of the operations; recursive logging (a record whose Display argument logs another record through the same logger) is one of the operations",
    "C09": "reopen_output() with the file in place is one of the operations; explicit rotations whose new file cannot be opened (fault at fs point open; the file keeps its start time and name)",
    "C10": "memory buffer as primary output with limits around the line lengths; recursion nesting depth 2-4; every 32nd case is a DST child; a quarter of the file-spec cases plants FIFOs, dangling links and links to FIFOs under the names of old rotated files",
    "C11": "histories contain reopen_output() with the file in place; every 2nd case adds kill points that do not depend on the hooks: the history runs under strace, which delivers SIGKILL at the entry of the n-th rename/unlink/symlink/openat/write naming the log directory (taken from a traced run; sampled, thorough: all when at most 80)",
    "C12": "two thirds of the cases register an additional writer of low ceiling; every 20th case has the specfile watcher as one more controlled participant",
    "C13": "lists with repeated names; an enabled() query per routed record; a third of the specifications carries a text filter (it concerns the default channel only), messages hit and miss it",
    "C14": "near-miss classes include <fixed>_<infix>.gz without the suffix and sub-directories named like a family file; class suffix-overlap (fixed name part ends like the beginning of .<suffix>); every 32nd case runs the polluted history in a child under strace (-f -y, %file + fd-based calls) and checks offline that no successful mutating system call names a foreign path (shape suffix |strace; counters strace_*); class dot-truncated (a dot inside the fixed name part, mostly no suffix: <part before the dot>.gz and relatives)",
    "C15": "parameterless write-mode variants take part; reopen_output() with the file in place is one of the operations of the record histories",
    "C16": "per-case equivalent builder call sequences; try_from paths also with rotation + listing; every 32nd case is a DST child; in half of the symlink cases the configured link exists before the logger starts (dangling, or pointing elsewhere)",
    "C17": "a tenth of the strings is long; every 16th string also through the RUST_LOG entry points; blank-part vs empty-part relation for inputs the docs leave open",
    "C18": "every 8th case: primary file/stderr/stdout + an additional file writer, one reopen_output for all, immediate reads of unbuffered files; every 16th case: reopen_output in a loop while 2-4 threads log through rotations; a third of the resets of a non-rotating family keeps the same file specification and only switches rotation on",
    "C19": "a bystander file writer in every fault history; a third of the cases with the background cleanup thread; partition under cleanup faults and cleanup limits after recovery are judged; real faults: blocked rotation target, rotated name longer than NAME_MAX, controlled failed-open-then-background-cleanup order, RLIMIT_FSIZE; every 10th case: failures of the system calls themselves (strace -e inject=<call>:error=<errno>:when=<n>[..m] on the n-th write/openat/rename/unlink naming the log directory of a child history; the strace log attributes each failure to the operation window announced in the ack file); the listing of the directory (fs point read_dir) is one of the hook fault points since the listing has an error path (fix 5ed7d12); the syscall-fault histories contain restarts (a logger started on a directory with files, under a fault); in the syscall-fault histories the plain number naming has a quarter of the cases, two thirds of the rotating histories restart the logger, and the failing calls of a set-up on a directory with files are sampled first; every 10th case: hook faults while a logger starts on a directory with the files of an earlier run (p_c19r.rs): the fs points of the first log call of the second run are traced, then one run per (point, occurrence) and per burst from the first occurrence; judged against the same two runs without the fault (records of the earlier run that survive there survive here; records of the new run missing only while the listing / the rename of the earlier current file / the creation of the file keeps failing, or where their own write failed)",
    "C20": "shards 4-7 and 12-15 run with UTC forced; children configure formats explicitly, through AdaptiveFormat, or not at all",
}
for _k, _v in RULE_ADDENDA.items():
    PROPS[_k]["rule"] = PROPS[_k]["rule"] + " | added scenario families: " + _v
