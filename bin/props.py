"""Per-property run configuration for bin/check (shards, case caps, time boxes, floors) and the
static parts of the evidence (level, rule, assumptions)."""

COMMON_ASSUMPTIONS = [
    "the oracle decides only the executions this run produced (seeded generators; see coverage)",
    "flexi_logger is built from /repo's working tree with feature verif_hooks (virtual clock, "
    "creation-time table, fs/schedule points) plus all optional features; hooks are add-only",
    "the harness' reference models (family parser, partition/stack/routing models) are written "
    "from the documentation and are the trusted base of the comparison",
    "file system = tmpfs (/dev/shm) or /tmp of this sandbox; Linux only",
]


def box(shards, cases, secs, **kw):
    d = {"shards": shards, "cases": cases, "secs": secs}
    d.update(kw)
    return d


NOT_APPLICABLE = {}

PROPS = {
    "C01": {
        "level": "exploration",
        "technique": "runtime monitoring: byte-exact stream oracle over seeded single-thread "
                     "histories of the real FileLogWriter/Logger under a virtual and the real clock",
        "level_text": "Held on the executions explored: after every flush and after shutdown/drop "
                      "the concatenation of the family files (independent family parser, "
                      "chronological order) is compared byte for byte with the accepted records' "
                      "lines; thousands of (configuration x history) cases per run. Exploration, "
                      "not proof: it decides the sampled configurations and histories only.",
        "level_note": "Trusted: the harness' family parser/ordering (written from the docs), the "
                      "generator's own knowledge of what its format function prints, the virtual "
                      "clock hook. Not covered: asynchronous mode (C03/C15), cleanup (C07).",
        "rule": "cases = seeded (configuration x operation history) pairs, PRNG state derived from "
                "(VERIF_SEED, property, shard, case); a case is non-trivial iff at least one "
                "rotation happened and at least one byte-exact stream comparison was evaluated; "
                "distinct = distinct shape keys (driver level, naming, criterion kind, write-mode "
                "kind, line ending, name-part mask, clock kind, format, rotation bucket, saw "
                ".restart-, saw trigger) among non-trivial cases",
        "assumptions": COMMON_ASSUMPTIONS + [
            "single logging thread, synchronous write modes, Cleanup::Never (as in the statement)",
        ],
        "quick": box(16, 400, 25, floor_evaluations=200, floor_shapes=20),
        "thorough": box(16, 12000, 420, floor_evaluations=2000, floor_shapes=50),
    },
}
