#!/bin/bash
# bin/seed_recheck.sh [seed ids...] : regression run of the monitors against the kept seeded changes.
# For each seeded/<id>: git -C /repo apply patch.diff, run the quick checks listed in meta.json "caught_by",
# undo with git -C /repo checkout -- . ; prints one line per (seed, check). Expectation: every listed
# check fires (exit 1). Must not run concurrently with anything else that builds from /repo.
cd /verif
IDS=${@:-$(ls seeded | grep -v INDEX)}
[ -z "$(git -C /repo status --short)" ] || { echo "/repo working tree is not clean"; exit 2; }
bad=0
for id in $IDS; do
  if python3 -c "import json,sys;sys.exit(0 if json.load(open('seeded/$id/meta.json')).get('obsolete_since') else 1)"; then echo "$id: skipped (obsolete, see meta.json)"; continue; fi
  props=$(python3 -c "import json;print(' '.join(json.load(open('seeded/$id/meta.json')).get('caught_by',[])))")
  if ! git -C /repo apply /verif/seeded/$id/patch.diff 2>/dev/null; then echo "$id: patch does not apply"; bad=1; continue; fi
  for p in $props; do
    o=$(VERIF_SEED=${VERIF_SEED:-1} bin/check $p --tier quick 2>&1); rc=$?
    echo "$id $p exit=$rc violation_lines=$(echo "$o" | grep -c '^VIOLATION')"
    [ $rc -eq 1 ] || bad=1
  done
  git -C /repo checkout -- .
done
rm -rf /verif/replays
# rebuild the harness against the unchanged tree so that no stale binary is left behind
(cd harness && CARGO_TARGET_DIR=/verif/harness/target cargo build --release --offline >/dev/null 2>&1)
exit $bad
