#!/usr/bin/env python3
import sys,json,collections
c=collections.Counter(); sig=collections.Counter(); shapes=set(); nt=0
ex={}
for l in sys.stdin:
    try: r=json.loads(l)
    except Exception: continue
    if 'verdict' not in r: continue
    c[r['verdict'][:40]]+=1
    if r['nontrivial']: nt+=1; shapes.add(r['shape'])
    for v in r['violations']:
        sig[v['sig']]+=1; ex.setdefault(v['sig'],(r['shard'],r['case'],v['detail'][:int(sys.argv[1]) if len(sys.argv)>1 else 500]))
print(c, 'nontrivial',nt,'shapes',len(shapes))
for s,n in sig.most_common(): print(n,s,ex[s])
