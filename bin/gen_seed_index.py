#!/usr/bin/env python3
"""Writes seeded/INDEX.md from seeded/*/meta.json."""
import json, glob, os
root = os.path.join(os.path.dirname(os.path.abspath(__file__)), "..", "seeded")
rows = []
for mpath in sorted(glob.glob(os.path.join(root, "*", "meta.json"))):
    m = json.load(open(mpath))
    runs = ", ".join(
        f"{c['property']}: {'fires' if c['exit'] == 1 else 'silent'}" + (f" ({c['note']})" if c.get("note") else "")
        for c in m.get("checks_run", []))
    rows.append((m["seed_id"], m.get("breaks_property", "?"), m.get("change", "?"), m.get("needs_to_manifest", "?"),
                 ", ".join(m.get("caught_by", [])) or "—", runs, m.get("history", "")))
out = ["# Seeded property-breaking changes", "",
       "Each directory holds `patch.diff` (apply with `git -C /repo apply`, undo with `git -C /repo checkout -- .`),",
       "the agent's demonstration (`seed_demo*.rs`, fails with / passes without the change), the agent's README and",
       "`meta.json`. All compile and pass the pinned 77 tests. None is ever committed to /repo.", "",
       "| id | breaks | change | needs, to manifest | caught by (quick tier) | checks run | history |",
       "|---|---|---|---|---|---|---|"]
for r in rows:
    out.append("| " + " | ".join(x.replace("|", "\\|").replace("\n", " ") for x in r) + " |")
open(os.path.join(root, "INDEX.md"), "w").write("\n".join(out) + "\n")
print(f"{len(rows)} seeded changes indexed")
